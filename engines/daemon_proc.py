"""E-daemon: drive `python -m cobald.daemon <config>` as a child process with instrumented fixture classes"""
import json
import os
import signal
import subprocess
import sys
import tempfile
import time

from engines.plugin_scratch import scratch_dir, write_entry_points, write_module

FIXTURES = '''
"""Fixture pools / decorators / controllers that report what happens to them to $VERIF_EVENTS"""
import asyncio, json, os, sys, threading, time
import trio
from cobald.interfaces import Pool, PoolDecorator, Controller
from cobald.daemon import service

_EVENTS = os.environ.get("VERIF_EVENTS")


def emit(ev, name, **data):
    if not _EVENTS:
        return
    line = json.dumps({"ev": ev, "name": name, "t": time.time(), "pid": os.getpid(), **data}) + "\\n"
    fd = os.open(_EVENTS, os.O_WRONLY | os.O_APPEND | os.O_CREAT)
    try:
        os.write(fd, line.encode())
    finally:
        os.close(fd)


def _constructed(self, name, target=None):
    try:
        loop = id(asyncio.get_running_loop())
        running = True
    except RuntimeError:
        running, loop = False, None
    emit("constructed", name, loop_running=running, loop=loop, main_thread=threading.current_thread() is threading.main_thread(),
         cls=type(self).__name__, thread=threading.get_ident(),
         target=getattr(target, "fx_name", None) if target is not None else None)


class FxPool(Pool):
    supply = demand = 0
    utilisation = allocation = 1.0

    def __init__(self, name="pool", fail=False, quiet=False, size=None, **extra):
        self.fx_name = name
        self.fx_size = size
        if fail:
            raise ValueError("fixture %s refuses to be constructed" % name)
        if not quiet:
            _constructed(self, name)


class FxPoolSized(FxPool):
    """a pool that is a sized container of resources; with size 0 it is falsy"""

    def __len__(self):
        return self.fx_size or 0


class FxDeco(PoolDecorator):
    def __init__(self, target, name="deco", fail=False):
        super().__init__(target)
        self.fx_name = name
        if fail:
            raise ValueError("fixture %s refuses to be constructed" % name)
        _constructed(self, name, target)


class FxCtrl(Controller):
    def __init__(self, target, name="ctrl", fail=False):
        super().__init__(target)
        self.fx_name = name
        if fail:
            raise ValueError("fixture %s refuses to be constructed" % name)
        _constructed(self, name, target)


class _Outcome(Exception):
    pass


class _BaseOutcome(BaseException):
    pass


import logging as _logging


class SlowHandler(_logging.Handler):
    """a log handler that takes its time (a remote or synchronous sink): configured by the generated logging
    sections, it stretches every window inside the runtime code that logs"""

    def __init__(self, delay=0.002):
        super().__init__()
        self.delay = float(delay)

    def emit(self, record):
        time.sleep(self.delay)


def section_digest(content):
    """a section plugin (entry point cobald.config.sections: verifsection)"""
    emit("section", "verifsection", content=repr(content)[:80])
    if isinstance(content, dict) and content.get("fail"):
        raise ValueError("section plugin refuses its content")
    return {"digested": content}


def _end(self):
    emit("failing", self.fx_name, kind=self.fail_kind)
    if self.fail_kind == "raise":
        raise _Outcome("service %s fails on purpose" % self.fx_name)
    if self.fail_kind == "base":
        raise _BaseOutcome("service %s fails on purpose with a BaseException" % self.fx_name)
    if self.fail_kind == "exit":
        sys.exit(3)
    return "service %s returns a value" % self.fx_name


class _SvcBase(PoolDecorator):
    period = 0.02

    def __init__(self, target, name="svc", fail_after=None, fail_kind="raise"):
        super().__init__(target)
        self.fx_name, self.fail_after, self.fail_kind = name, fail_after, fail_kind
        _constructed(self, name, target)


@service(flavour=asyncio)
class FxSvcAsyncio(_SvcBase):
    async def run(self):
        emit("run-start", self.fx_name, flavour="asyncio", thread=threading.get_ident(), loop=id(asyncio.get_running_loop()))
        n = 0
        try:
            while True:
                await asyncio.sleep(self.period)
                n += 1
                emit("beat", self.fx_name, n=n)
                if self.fail_after is not None and n >= self.fail_after:
                    return _end(self)
        except asyncio.CancelledError:
            emit("cancelled", self.fx_name)
            raise


@service(flavour=trio)
class FxSvcTrio(_SvcBase):
    async def run(self):
        emit("run-start", self.fx_name, flavour="trio", thread=threading.get_ident())
        n = 0
        try:
            while True:
                await trio.sleep(self.period)
                n += 1
                emit("beat", self.fx_name, n=n)
                if self.fail_after is not None and n >= self.fail_after:
                    return _end(self)
        except trio.Cancelled:
            emit("cancelled", self.fx_name)
            raise


@service(flavour=threading)
class FxSvcThread(_SvcBase):
    def run(self):
        emit("run-start", self.fx_name, flavour="threading", thread=threading.get_ident())
        n = 0
        while True:
            time.sleep(self.period)
            n += 1
            emit("beat", self.fx_name, n=n)
            if self.fail_after is not None and n >= self.fail_after:
                return _end(self)


@service(flavour=asyncio)
class FxSvcParked(_SvcBase):
    """parks on an awaitable that nothing but its own task refers to"""

    async def run(self):
        emit("run-start", self.fx_name, flavour="asyncio", thread=threading.get_ident(), loop=id(asyncio.get_running_loop()))
        try:
            await asyncio.Event().wait()
        except asyncio.CancelledError:
            emit("cancelled", self.fx_name)
            raise
        finally:
            emit("run-end", self.fx_name)


@service(flavour=threading)
class FxGc(_SvcBase):
    """a service that forces garbage collections (as any allocation-heavy code does sooner or later)"""

    def run(self):
        import gc

        emit("run-start", self.fx_name, flavour="threading", thread=threading.get_ident())
        n = 0
        while True:
            time.sleep(self.period)
            gc.collect()
            n += 1
            emit("beat", self.fx_name, n=n)


@service(flavour=threading)
class FxSvcUnhashable(_SvcBase):
    """value semantics like a plain @dataclass: equal by configuration, not hashable"""
    __hash__ = None

    def __eq__(self, other):
        return type(other) is type(self) and self.period == other.period

    run = FxSvcThread.run


@service(flavour=asyncio)
class FxSvcEqual(_SvcBase):
    """value semantics like @dataclass(unsafe_hash=True): all instances are equal and hash alike"""

    def __eq__(self, other):
        return type(other) is type(self)

    def __hash__(self):
        return 7

    run = FxSvcAsyncio.run


@service(flavour=trio)
class FxSvcQuiet(PoolDecorator):
    """a silent service: only reports that it was started"""

    def __init__(self, target, name="quiet"):
        super().__init__(target)
        self.fx_name = name

    async def run(self):
        emit("run-start", self.fx_name, flavour="trio")
        await trio.sleep_forever()


@service(flavour=trio)
class FxSvcCtrl(Controller):
    """a controller service (head of a pipeline)"""
    period = 0.02

    def __init__(self, target, name="svcctrl", fail_after=None, fail_kind="raise"):
        super().__init__(target)
        self.fx_name, self.fail_after, self.fail_kind = name, fail_after, fail_kind
        _constructed(self, name, target)

    run = FxSvcTrio.run
'''
SITECUSTOMIZE = '''
"""Harness-owned schedule perturbation inside the daemon process (no change to the code under test): if
VERIF_TRACE_DELAY is set, sleep a per-thread number of milliseconds at every source line of the named modules."""
import json, os, sys, threading, time

_spec = os.environ.get("VERIF_TRACE_DELAY")
if _spec:
    _spec = json.loads(_spec)
    _files = tuple(_spec["files"])
    _delays = _spec["delays_ms"]
    _main = threading.main_thread().ident

    def _local(frame, event, arg):
        if event == "line":
            d = _delays[0] if threading.get_ident() == _main else _delays[1 + (threading.get_ident() % (len(_delays) - 1))]
            if d:
                time.sleep(d / 1000)
        return _local

    def _tracer(frame, event, arg):
        if event == "call" and frame.f_code.co_filename.endswith(_files):
            return _local
        return None

    threading.settrace(_tracer)
    sys.settrace(_tracer)
'''
MOD = "verifdaemon_fx"
TAGS = ["FxPool", "FxPoolSized", "FxDeco", "FxCtrl", "FxSvcAsyncio", "FxSvcTrio", "FxSvcThread", "FxSvcCtrl", "FxSvcParked", "FxGc", "FxSvcQuiet", "FxSvcUnhashable", "FxSvcEqual"]
_ready = False


def ensure_fixtures():
    global _ready
    if not _ready:
        write_module(MOD + ".py", FIXTURES)
        write_module("sitecustomize.py", SITECUSTOMIZE)
        write_entry_points("verif_daemon", {"cobald.config.yaml_constructors": {t: f"{MOD}:{t}" for t in TAGS},
                                            "cobald.config.sections": {"verifsection": f"{MOD}:section_digest"}})
        _ready = True
    return scratch_dir()


def read_events(path):
    out = []
    try:
        with open(path) as f:
            for line in f:
                line = line.strip()
                if line:
                    try:
                        out.append(json.loads(line))
                    except ValueError:
                        pass
    except FileNotFoundError:
        pass
    return out


class Daemon:
    def __init__(self, config_name, config_text, extra_args=(), create=True, trace_delay=None):
        self.trace_delay = trace_delay
        self.scratch = ensure_fixtures()
        self.dir = tempfile.mkdtemp(prefix="daemon-", dir=self.scratch)
        self.config = os.path.join(self.dir, config_name)
        os.makedirs(os.path.dirname(self.config), exist_ok=True)  # the name may place the file in a sub-directory
        if create:
            with open(self.config, "w") as f:
                f.write(config_text)
        self.events = os.path.join(self.dir, "events.jsonl")
        self.log = os.path.join(self.dir, "daemon.log")
        self.extra_args = list(extra_args)
        self.proc = None

    def start(self):
        repo = os.environ.get("VERIF_REPO", "/repo")
        env = dict(os.environ)
        env["PYTHONPATH"] = os.pathsep.join([os.path.join(repo, "src"), self.scratch])
        env["VERIF_EVENTS"] = self.events
        if self.trace_delay:
            env["VERIF_TRACE_DELAY"] = json.dumps(self.trace_delay)
        else:
            env.pop("VERIF_TRACE_DELAY", None)
        env.pop("PYTHONHASHSEED", None)
        self.t_start = time.time()
        self.proc = subprocess.Popen([sys.executable, "-m", "cobald.daemon", self.config, "--log-target", self.log] + self.extra_args,
                                     env=env, stdout=subprocess.PIPE, stderr=subprocess.STDOUT, cwd=self.dir, start_new_session=True)
        return self

    def wait_for(self, predicate, timeout):
        """poll the event file until predicate(events) or the process exits or timeout; returns (ok, events)"""
        end = time.time() + timeout
        while True:
            ev = read_events(self.events)
            if predicate(ev):
                return True, ev
            if self.proc.poll() is not None:
                return False, read_events(self.events)
            if time.time() > end:
                return False, ev
            time.sleep(0.02)

    def wait_exit(self, timeout):
        try:
            return self.proc.wait(timeout)
        except subprocess.TimeoutExpired:
            return None

    def sigint(self):
        self.t_signal = time.time()
        os.kill(self.proc.pid, signal.SIGINT)

    def read_log(self):
        try:
            with open(self.log, errors="replace") as f:
                text = f.read()
        except FileNotFoundError:
            text = ""
        return text

    def output(self):
        try:
            return self.proc.stdout.read().decode(errors="replace") if self.proc and self.proc.stdout else ""
        except Exception:  # noqa
            return ""

    def cleanup(self):
        import shutil

        if self.proc is not None and self.proc.poll() is None:
            try:
                os.killpg(self.proc.pid, signal.SIGKILL)
            except ProcessLookupError:
                pass
            self.proc.wait()
        if self.proc is not None and self.proc.stdout:
            self.proc.stdout.close()
        shutil.rmtree(self.dir, ignore_errors=True)
