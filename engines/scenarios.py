"""Shared Hypothesis strategies and oracle helpers for runtime scenarios (C01-C03, C10-C12)"""
from hypothesis import strategies as st

from engines.runtime_worker import BASE_POOL, EXC_POOL, RETURN_POOL

COROUTINE = ["asyncio", "trio"]
ALL = ["asyncio", "trio", "threading"]
flavour = st.sampled_from(ALL)
accept_delay = st.sampled_from([0.005, 0.01, 0.02, 0.05, 0.2])
switchinterval = st.sampled_from([None, None, 5e-3, 1e-4, 1e-5])
EXC_NAMES = sorted(EXC_POOL)
BASE_NAMES = sorted(BASE_POOL)
RETURN_NAMES = sorted(RETURN_POOL)
FALSY = ["0", "0.0", "False", "''", "[]", "()", "{}", "b''"]


def cleanup(flv):
    if flv == "trio":
        return st.fixed_dictionaries({"sync_ms": st.sampled_from([0, 0, 5, 30, 150]), "shield_ms": st.sampled_from([0, 0, 10, 60, 400])})
    if flv == "asyncio":
        return st.fixed_dictionaries({"sync_ms": st.sampled_from([0, 0, 5, 30, 150])})
    return st.just({})


@st.composite
def bystander(draw, pid, flv=None, states=("sleeping", "spinning", "beating", "blocked")):
    flv = flv or draw(flavour)
    state = draw(st.sampled_from(states))
    if flv == "threading":
        program = [["block", 60000]] if state == "blocked" else [["beat", draw(st.sampled_from([2, 5, 20])), 100000]]
    elif state == "spinning":
        program = [["spin", 1000000]]
    elif state == "beating" or state == "blocked":
        program = [["beat", draw(st.sampled_from([2, 5, 20])), 100000]]
    else:
        program = [["sleep", 600000]]
    return {"id": pid, "flavour": flv, "role": "bystander", "state": state, "reg": {"how": draw(st.sampled_from(["pre", "pre", "pre-service"]))},
            "program": program, "end": ["forever"], "cleanup": draw(cleanup(flv))}


def flatten_leaves(node, out=None):
    """all nodes of an exception tree reached through exception groups (groups themselves included)"""
    if out is None:
        out = []
    if node is None:
        return out
    out.append(node)
    for sub in node.get("group", []) or []:
        flatten_leaves(sub, out)
    return out


def chain_has_injected(node, pids, depth=0):
    """is an injected failure reachable through the __cause__/__context__ chain (and groups) of node?"""
    if node is None or depth > 8:
        return False
    if node.get("injected") in pids or node.get("orphan_value_of") in pids:
        return True
    for key in ("cause", "context"):
        if chain_has_injected(node.get(key), pids, depth + 1):
            return True
    return any(chain_has_injected(sub, pids, depth + 1) for sub in node.get("group", []) or [])


def events(obs, kind=None, pid=None):
    return [e for e in obs.get("log", []) if (kind is None or e[3] == kind) and (pid is None or e[2] == pid)]
