"""E-clock: run real service coroutines under trio's virtual clock"""
import trio
import trio.testing


def run_virtual(async_fn, *args):
    """trio.run with an autojumping MockClock: time passes only when every task sleeps"""
    return trio.run(async_fn, *args, clock=trio.testing.MockClock(autojump_threshold=0))


async def run_for(duration, *tasks):
    """Run the given nullary async callables concurrently, cancel all of them after `duration`"""
    with trio.move_on_after(duration):
        async with trio.open_nursery() as nursery:
            for t in tasks:
                nursery.start_soon(t)
