#!/venv/bin/python
"""E-fuzz: atheris (libFuzzer) targets with the semantic oracle inside (thorough tier, supplementary to Hypothesis).

  fuzz_targets.py c17 <statsfile> [libFuzzer args]   line-protocol round trip on byte-derived records
  fuzz_targets.py c18 <statsfile> [libFuzzer args]   byte-level YAML against the canary oracle

A violation raises inside the target, libFuzzer stores the input as an artifact; the parent turns it into a replay file
(`{"fuzz_input_hex": ...}`) that is re-run in-process without atheris."""
import json
import os
import sys
import tempfile

STATS = {"runs": 0, "interesting": 0}


class Violation(Exception):
    pass


def _flush(path):
    with open(path + ".tmp", "w") as f:
        json.dump(STATS, f)
    os.replace(path + ".tmp", path)


# ------------------------------------------------------------------------------------------ C17
def c17_spec_from_bytes(data):
    import atheris

    fdp = atheris.FuzzedDataProvider(data)
    alpha = "ab09 ,=\"'\\#%äλ_-./:"

    def text(maxlen=8, name=False, allow_empty=False):
        n = fdp.ConsumeIntInRange(0 if allow_empty else 1, maxlen)
        s = "".join(alpha[fdp.ConsumeIntInRange(0, len(alpha) - 1)] for _ in range(n))
        if name:
            s = s.replace("%", "p")
            if s.startswith("#"):
                s = "m" + s
        if s.endswith("\\"):
            s += "z"
        if not s and not allow_empty:
            s = "k"
        return s

    def value(tag=False):
        k = fdp.ConsumeIntInRange(0, 4)
        if k == 0:
            return text(8, allow_empty=not tag)
        if k == 1:
            return fdp.ConsumeIntInRange(-2**53, 2**53)
        if k == 2:
            v = fdp.ConsumeFloat()
            return v if v == v and abs(v) != float("inf") else 0.5
        if k == 3:
            return fdp.ConsumeBool()
        return fdp.ConsumeIntInRange(-9, 9)

    from cobald.monitor.format_json import RECORD_ATTRIBUTES

    keys = []
    for _ in range(fdp.ConsumeIntInRange(1, 6)):
        k = text()
        if k in RECORD_ATTRIBUTES:
            k = "k_" + k
        if k not in keys:
            keys.append(k)
    kind = ["none", "set", "dict"][fdp.ConsumeIntInRange(0, 2)]
    n_tag = 0 if kind == "none" else fdp.ConsumeIntInRange(0, len(keys) - 1)
    tag_keys, field_keys = keys[:n_tag], keys[n_tag:]
    defaults, args = {}, {}
    for k in tag_keys:
        if kind == "dict":
            defaults[k] = value(tag=True)
        if fdp.ConsumeBool():
            args[k] = value(tag=True)
    for k in field_keys:
        args[k] = value()
    return {"name": text(8, name=True), "kind": kind, "tag_keys": tag_keys, "defaults": defaults, "args": args,
            "res": [None, 1, 10, 60, 3600][fdp.ConsumeIntInRange(0, 4)], "created": float(fdp.ConsumeIntInRange(0, 4 * 10**9))}


def c17_one(data):
    from props.c17 import run_line

    spec = c17_spec_from_bytes(data)
    res = run_line(spec)
    STATS["runs"] += 1
    STATS["interesting"] += bool(res.nontrivial)
    if res.violations:
        raise Violation(res.violations[0].clause + ": " + res.violations[0].message)


# ------------------------------------------------------------------------------------------ C18
_C18 = {}


def c18_setup():
    from props.c18 import ensure
    from engines.plugin_scratch import scratch_dir

    _C18["live"] = ensure()
    _C18["dir"] = tempfile.mkdtemp(prefix="fuzz18-", dir=scratch_dir())
    _C18["path"] = os.path.join(_C18["dir"], "config.yaml")


def c18_one(data):
    """bytes are the YAML document. Oracle: whatever load() does, nothing a document names is imported or called."""
    from cobald.daemon.core.config import load
    from engines.plugin_scratch import scratch_dir

    if not _C18:
        c18_setup()
    live = _C18["live"]
    live.CALLS.clear()
    sys.modules.pop("verifcanary_late", None)
    with open(_C18["path"], "wb") as f:
        f.write(data)
    loaded = False
    try:
        with load(_C18["path"]):
            loaded = True
    except RecursionError:
        pass
    except Exception:
        pass
    STATS["runs"] += 1
    if b"!" in data:
        STATS["interesting"] += 1
    marker = os.path.join(scratch_dir(), "verifcanary_marker")
    if live.CALLS:
        raise Violation("named-object-called: %r" % (live.CALLS[:2],))
    if "verifcanary_late" in sys.modules or os.path.exists(marker):
        try:
            os.unlink(marker)
        except OSError:
            pass
        raise Violation("named-module-imported")
    if loaded and b"!" in data:
        # the document was accepted: every tag in it (explicit or resolved) must be one the loader can construct - core YAML
        # types and registered plugins; a python/* or unregistered tag can hide in a quoted string or comment, so only
        # *composed* tags count
        import yaml
        from cobald.daemon.core.config import COBalDLoader

        try:
            root = yaml.compose(data.decode("utf-8", "replace"), Loader=COBalDLoader)
        except Exception:
            root = None
        known = set(COBalDLoader.yaml_constructors) | {"tag:yaml.org,2002:merge", "tag:yaml.org,2002:value"}
        todo, seen = [root] if root is not None else [], set()
        while todo:
            node = todo.pop()
            if id(node) in seen:
                continue
            seen.add(id(node))
            if node.tag not in known:
                raise Violation("document-accepted: tag %r loaded without error" % (node.tag,))
            if isinstance(node, yaml.SequenceNode):
                todo.extend(node.value)
            elif isinstance(node, yaml.MappingNode):
                for k, v in node.value:
                    todo.extend((k, v))


C18_DICT = [
    "!!python/object/apply:verifcanary_live.fire", "!!python/object/new:verifcanary_live.Boom", "!!python/object:verifcanary_live.Boom",
    "!!python/name:verifcanary_live.fire", "!!python/module:verifcanary_late", "!!python/object/apply:verifcanary_late.go",
    "!<tag:yaml.org,2002:python/object/apply:verifcanary_live.fire>", "%TAG !py! tag:yaml.org,2002:python/\n---\n", "!py!object/apply:verifcanary_live.fire",
    "!!python/tuple", "!!python/dict", "pipeline:", "- !VPool", "- !VDeco", "!VLazy", "!VEager", "verifextra:", "logging:", "__type__: verifyaml_c05.RecPool",
    "{args: [1]}", "[]", "{}", "&a", "*a", "? ", ": ", "\n  ", "\n- ", "<<: ", "<<: [", "--- !", "!NotRegistered", "!!binary", "!!set", "!!omap",
]
C18_CORPUS = [
    "pipeline:\n- !VDeco {a: 1}\n- !VPool\n",
    "pipeline:\n- !VPool\nverifextra: !VLazy {a: [1, {b: 2}]}\n",
    "pipeline:\n- __type__: verifyaml_c05.RecPool\nlogging:\n  version: 1\n",
    "pipeline:\n- !VPool\nverifextra: !!python/object/apply:verifcanary_live.fire [1]\n",
    "pipeline:\n- !VPool\nverifextra: &x !VEager [1]\nzz: *x\n",
    "pipeline:\n- !VPool\nverifextra: !VEager [1, {a: [2, !VLazy {b: 3}]}]\n",
    "pipeline:\n- !VDeco {a: !VEager [x, {k: !!python/tuple [1, 2]}]}\n- !VPool\n",
    "pipeline:\n- !VPool\nverifextra: !VLazy {? !!python/name:verifcanary_live.fire '' : 1}\n",
    "pipeline:\n- !VPool\nverifextra:\n  a: 1\n  <<: {b: 2}\n",
    "pipeline:\n- !VDeco\n  a: 1\n  <<: [{b: 2}, {c: 3}]\n- !VPool\n",
    "--- !!map\npipeline:\n- !VPool\n",
]


def main():
    import atheris

    which, stats = sys.argv[1], sys.argv[2]
    argv = [sys.argv[0]] + sys.argv[3:]
    with atheris.instrument_imports(include=["yaml", "cobald"] if which == "c18" else ["cobald.monitor"]):
        import yaml  # noqa
        import cobald.monitor.format_line  # noqa
        import cobald.daemon.core.config  # noqa
    target = c17_one if which == "c17" else c18_one
    counter = {"n": 0}

    def wrapped(data):
        counter["n"] += 1
        if counter["n"] % 500 == 0:
            _flush(stats)
        try:
            target(data)
        finally:
            if counter["n"] % 500 == 0:
                _flush(stats)

    atheris.Setup(argv, wrapped)
    try:
        atheris.Fuzz()
    finally:
        _flush(stats)


if __name__ == "__main__":
    main()
