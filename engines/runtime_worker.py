"""E-runtime: scenario interpreter for the concurrent runtime (C01-C03, C10-C12).

``run_scenario(scenario)`` forks; the child builds the payloads described by the (JSON) scenario, runs
``ServiceRunner.accept()`` / ``MetaRunner.run()`` in its *main thread* (so a real SIGINT can be delivered),
drives outside threads, records an event log and reports how the blocking call ended.  Facts that need object
identity (is the cause the injected exception? did the caller get the very object returned?) are evaluated in
the child and reported as plain data.  The parent applies the property's oracle to the observation.

Only the public surface of cobald is used: ServiceRunner(accept_delay), adopt, execute, accept, shutdown,
running, service, MetaRunner.register_payload / run_payload / run / stop / running.
"""
import asyncio
import functools
import gc
import json
import logging
import os
import select
import signal
import sys
import threading
import time
import traceback

import trio

FLAVOURS = {"asyncio": asyncio, "trio": trio, "threading": threading}


# ------------------------------------------------------------------------------------------ failures
class CustomError(Exception):
    def __init__(self, needed, also):
        super().__init__(needed, also)


class CustomBase(BaseException):
    pass


class TimeoutSubclass(TimeoutError):
    pass


class CancelledFutureSubclass(__import__("concurrent.futures").futures.CancelledError):
    pass


class InvalidStateSubclass(asyncio.InvalidStateError):
    pass


class ReprRaises(Exception):
    def __repr__(self):
        return "<ReprRaises>"


class StrRaises(Exception):
    """an exception that cannot be rendered as text (e.g. its message refers to an attribute that is not there)"""

    def __str__(self):
        raise AttributeError("'NoneType' object has no attribute 'name'")


EXC_POOL = {
    "Exception": lambda: Exception("boom"),
    "KeyError": lambda: KeyError("missing"),
    "IndexError": lambda: IndexError(3),
    "ValueError": lambda: ValueError("bad", 2),
    "TypeError": lambda: TypeError("type"),
    "OSError": lambda: OSError(5, "io"),
    "FileNotFoundError": lambda: FileNotFoundError(2, "nope"),
    "ConnectionResetError": lambda: ConnectionResetError("reset"),
    "TimeoutError": lambda: TimeoutError("slow"),
    "AssertionError": lambda: AssertionError(),
    "AttributeError": lambda: AttributeError("attr"),
    "ZeroDivisionError": lambda: ZeroDivisionError("div"),
    "RuntimeError": lambda: RuntimeError("rt"),
    "NotImplementedError": lambda: NotImplementedError(),
    "RecursionError": lambda: RecursionError("deep"),
    "MemoryError": lambda: MemoryError(),
    "LookupError": lambda: LookupError(),
    "ArithmeticError": lambda: ArithmeticError(),
    "OverflowError": lambda: OverflowError(),
    "UnicodeDecodeError": lambda: UnicodeDecodeError("utf-8", b"\xff", 0, 1, "bad"),
    "ImportError": lambda: ImportError("imp"),
    "ModuleNotFoundError": lambda: ModuleNotFoundError("mod"),
    "EOFError": lambda: EOFError(),
    "BufferError": lambda: BufferError(),
    "StopAsyncIteration": lambda: StopAsyncIteration(),
    "StopIteration": lambda: StopIteration("value"),
    "CustomError": lambda: CustomError("a", "b"),
    "ReprRaises": lambda: ReprRaises(),
    "ExceptionGroup": lambda: ExceptionGroup("grp", [ValueError("inner"), KeyError("k")]),
    "ExceptionGroup1": lambda: ExceptionGroup("single", [ValueError("only")]),
    "StrRaises": lambda: StrRaises(),
    "CancelledFuture": lambda: __import__("concurrent.futures").futures.CancelledError(),
    "InvalidStateError": lambda: asyncio.InvalidStateError("state"),
    "BrokenPipeError": lambda: BrokenPipeError(),
    "PermissionError": lambda: PermissionError(13, "perm"),
    "SyntaxError": lambda: SyntaxError("syn"),
    "UnboundLocalError": lambda: UnboundLocalError("x"),
    "TrioBrokenResource": lambda: trio.BrokenResourceError("broken"),
    "TrioClosedResource": lambda: trio.ClosedResourceError("closed"),
    "TrioTooSlow": lambda: trio.TooSlowError(),
    "Warning": lambda: UserWarning("warn"),
    "TimeoutSubclass": lambda: TimeoutSubclass("late"),
    "CancelledFutureSubclass": lambda: CancelledFutureSubclass(),
    "InvalidStateSubclass": lambda: InvalidStateSubclass("state"),
}
BASE_POOL = {
    "SystemExit": lambda: SystemExit(3),
    "SystemExit0": lambda: SystemExit(0),   # sys.exit(0) inside a payload is still the end of that payload, not a request honoured silently
    "SystemExitNone": lambda: SystemExit(),
    "GeneratorExit": lambda: GeneratorExit(),
    "CustomBase": lambda: CustomBase("base"),
}
async def _unawaited():
    return None


RETURN_POOL = {
    # a coroutine object handed back for the caller to await (a thread payload acting as a factory)
    "coroutine": lambda: _unawaited(),
    "0": lambda: 0, "0.0": lambda: 0.0, "False": lambda: False, "''": lambda: "", "[]": lambda: [], "()": lambda: (), "{}": lambda: {},
    "b''": lambda: b"", "'x'": lambda: "x", "1": lambda: 1, "object": lambda: object(), "True": lambda: True, "[0]": lambda: [0],
}


class Tagged:
    """identity-tagged argument object"""

    def __init__(self, n):
        self.n = n


# ------------------------------------------------------------------------------------------ world
class World:
    def __init__(self, scenario):
        self.sc = scenario
        self.log = []
        self.t0 = time.monotonic_ns()
        self.injected = {}     # pid -> raised exception object
        self.returned = {}     # pid -> returned object
        self.args = {}         # pid -> (args, kwargs) as submitted
        self.events = {}
        self.services = []     # strong refs to service instances
        self.counters = {"asyncio": 0, "trio": 0}
        self.specs = {p["id"]: p for p in scenario.get("payloads", [])}
        self.runner = None
        self.ops = []          # results of driver operations
        self.lock = threading.Lock()
        self.release = threading.Event()   # set at the very end: frees blocked thread payloads
        self.ended = threading.Event()     # the blocking call of the current episode has ended

    def now(self):
        return time.monotonic_ns() - self.t0

    def ev(self, pid, kind, **data):
        self.log.append([self.now(), threading.get_ident(), pid, kind, data])

    def event(self, name):
        with self.lock:
            return self.events.setdefault(name, threading.Event())

    # ---- argument values
    def make_args(self, spec):
        def val(v):
            if isinstance(v, dict) and "tag" in v:
                return Tagged(v["tag"])
            return v
        args = tuple(val(v) for v in spec.get("args", []))
        kwargs = {k: val(v) for k, v in spec.get("kwargs", {}).items()}
        self.args[spec["id"]] = (args, kwargs)
        return args, kwargs

    def args_ok(self, pid, args, kwargs):
        want = self.args.get(pid)
        if want is None:
            return args == () and kwargs == {}
        wa, wk = want
        if len(args) != len(wa) or set(kwargs) != set(wk):
            return False
        for a, b in zip(args, wa):
            if isinstance(b, Tagged):
                if a is not b:
                    return False
            elif a != b or type(a) is not type(b):
                return False
        for k in wk:
            a, b = kwargs[k], wk[k]
            if isinstance(b, Tagged):
                if a is not b:
                    return False
            elif a != b or type(a) is not type(b):
                return False
        return True

    # ---- how a payload ends
    def finish(self, spec):
        kind, what = spec.get("end", ["return", "None"])
        pid = spec["id"]
        if kind == "return":
            if what == "None":
                return None
            obj = RETURN_POOL[what]()
            self.returned[pid] = obj
            return obj
        if kind == "raise":
            exc = (EXC_POOL.get(what) or BASE_POOL.get(what) or (lambda: KeyboardInterrupt()))()
            self.injected[pid] = exc
            raise exc
        raise AssertionError("forever payloads never finish")

    # ---- submission helpers used by payload programs and by drivers
    def submit(self, spec, how, who):
        """adopt / execute / create a service for payload spec; logs call/return/raise"""
        pid = spec["id"]
        flavour = FLAVOURS[spec["flavour"]]
        t_call = self.now()
        rec = {"op": how, "pid": pid, "by": who, "t_call": t_call, "thread": threading.get_ident()}
        try:
            if how == "service":
                cls = self.service_class(spec)
                inst = cls()
                inst._verif_pid = pid
                self.services.append(inst)
                rec["result"] = "created"
                if spec.get("singleton"):
                    # ask for the singleton again later, when it is already running
                    def again(n=spec["singleton"]):
                        for _ in range(n):
                            time.sleep(self.sc.get("accept_delay", 0.01) * 2 + 0.005)
                            if self.ended.is_set():
                                return
                            if cls() is not inst:
                                self.ev(pid, "singleton-broken")

                    threading.Thread(target=again, daemon=True).start()
            elif how == "adopt":
                args, kwargs = self.make_args(spec)
                payload = self.build(spec)
                if isinstance(self.runner, MetaRunnerAdapter):
                    out = self.runner.adopt(payload, *args, flavour=flavour, **kwargs)
                else:
                    out = self.runner.adopt(payload, *args, flavour=flavour, **kwargs)
                rec["result"] = "none" if out is None else "value:%r" % (out,)
            elif how == "execute":
                args, kwargs = self.make_args(spec)
                payload = self.build(spec)
                out = self.runner.execute(payload, *args, flavour=flavour, **kwargs)
                want = self.returned.get(pid)
                if spec.get("end", ["return", "None"]) == ["return", "None"]:
                    rec["result"] = "same" if out is None else "different:%r" % (out,)
                else:
                    rec["result"] = "same" if (pid in self.returned and out is want) else "different:%r" % (out,)
        except BaseException as e:  # noqa
            rec["raised"] = type(e).__name__
            rec["raised_is_injected"] = self.injected.get(pid) is e
            rec["raised_repr"] = safe_repr(e)
            rec["tb"] = traceback.format_exc()[-600:]
            if isinstance(e, (KeyboardInterrupt, SystemExit)) and how != "execute":
                rec["t_return"] = self.now()
                self.ops.append(rec)
                raise
        rec["t_return"] = self.now()
        self.ops.append(rec)
        return rec

    # ---- payload construction
    def context(self, flavour):
        ctx = {"thread": threading.get_ident()}
        if flavour == "asyncio":
            try:
                ctx["loop"] = id(asyncio.get_running_loop())
            except RuntimeError:
                ctx["loop"] = None
        elif flavour == "trio":
            try:
                ctx["token"] = id(trio.lowlevel.current_trio_token())
            except RuntimeError:
                ctx["token"] = None
        return ctx

    def build(self, spec):
        flavour = spec["flavour"]
        pid = spec["id"]
        w = self
        program = spec.get("program", [])
        cleanup = spec.get("cleanup", {})

        def start(args, kwargs):
            w.ev(pid, "start", args_ok=w.args_ok(pid, args, kwargs), ctx=w.context(flavour), flavour=flavour)

        def section(us):
            key = flavour
            v = w.counters[key]
            w.counters[key] = v + 1
            time.sleep(us / 1e6)
            seen = w.counters[key]
            w.counters[key] = seen - 1
            w.ev(pid, "section", seen=seen, ctx=w.context(flavour))

        def cleanup_ops():
            # a payload may hand work over to the runtime while it is being cancelled (adopt never raises, even then)
            for child in cleanup.get("adopt", []):
                w.submit(w.specs[child], "adopt", "cleanup:%d:%s" % (pid, flavour))

        def stop_runtime(how):
            rec = {"op": how, "by": "payload:%d:%s" % (pid, flavour), "t_call": w.now()}
            try:
                w.runner.shutdown()  # (the adapter of a bare MetaRunner maps this to stop())
                rec["result"] = "returned"
            except BaseException as e:  # noqa
                rec["raised"] = type(e).__name__
            rec["t_return"] = w.now()
            w.ops.append(rec)

        def sync_instr(instr):
            """instructions that do not await; returns True if handled"""
            op = instr[0]
            if op == "section":
                section(instr[1])
            elif op == "section-adopt":
                # adopt from the middle of a checkpoint-free section: the adopted payload must not start inside it
                key = flavour
                v = w.counters[key]
                w.counters[key] = v + 1
                w.submit(w.specs[instr[2]], "adopt", "payload:%d:%s" % (pid, flavour))
                time.sleep(instr[1] / 1e6)
                seen = w.counters[key]
                w.counters[key] = seen - 1
                w.ev(pid, "section", seen=seen, ctx=w.context(flavour))
            elif op == "adopt":
                w.submit(w.specs[instr[1]], "adopt", "payload:%d:%s" % (pid, flavour))
            elif op == "execute":
                w.submit(w.specs[instr[1]], "execute", "payload:%d:%s" % (pid, flavour))
            elif op == "service":
                w.submit(w.specs[instr[1]], "service", "payload:%d:%s" % (pid, flavour))
            elif op == "set":
                w.event(instr[1]).set()
            elif op == "burn":
                end = time.monotonic() + instr[1] / 1000
                while time.monotonic() < end:
                    pass
            elif op in ("mark-begin", "mark-end"):
                w.ev(pid, op)
            else:
                return False
            return True

        if flavour == "asyncio":
            async def payload(*args, **kwargs):
                start(args, kwargs)
                try:
                    for instr in program:
                        op = instr[0]
                        if op == "sleep":
                            await asyncio.sleep(instr[1] / 1000)
                        elif op == "spin":
                            for _ in range(instr[1]):
                                await asyncio.sleep(0)
                                w.ev(pid, "step")
                        elif op == "beat":
                            for _ in range(instr[2]):
                                await asyncio.sleep(instr[1] / 1000)
                                w.ev(pid, "beat")
                        elif op == "wait":
                            while not w.event(instr[1]).is_set():
                                await asyncio.sleep(0.001)
                        elif op == "park":
                            # suspended on an awaitable that nothing but this very task refers to
                            await asyncio.Event().wait()
                        elif op in ("shutdown", "stop"):
                            # the blocking call is made from a worker thread on behalf of this coroutine
                            await asyncio.get_running_loop().run_in_executor(None, stop_runtime, op)
                        elif not sync_instr(instr):
                            raise AssertionError("bad instruction %r" % (instr,))
                        w.ev(pid, "step")
                    if spec.get("end", ["return", "None"])[0] == "forever":
                        while True:
                            await asyncio.sleep(0.05)
                    w.ev(pid, "finish")
                    return w.finish(spec)
                except asyncio.CancelledError:
                    w.ev(pid, "cancelled", exc="asyncio.CancelledError")
                    # a stubborn payload keeps awaiting in its cancellation handler; each further cancel ends one wait
                    for _ in range(spec.get("stubborn", 0)):
                        try:
                            await asyncio.sleep(3600)
                        except asyncio.CancelledError:
                            w.ev(pid, "cancelled-again")
                    raise
                finally:
                    w.ev(pid, "cleanup-begin")
                    cleanup_ops()
                    if cleanup.get("sync_ms"):
                        time.sleep(cleanup["sync_ms"] / 1000)
                    w.ev(pid, "cleanup-done")
        elif flavour == "trio":
            async def payload(*args, **kwargs):
                start(args, kwargs)
                try:
                    for instr in program:
                        op = instr[0]
                        if op == "sleep":
                            await trio.sleep(instr[1] / 1000)
                        elif op == "spin":
                            for _ in range(instr[1]):
                                await trio.sleep(0)
                                w.ev(pid, "step")
                        elif op == "beat":
                            for _ in range(instr[2]):
                                await trio.sleep(instr[1] / 1000)
                                w.ev(pid, "beat")
                        elif op == "wait":
                            while not w.event(instr[1]).is_set():
                                await trio.sleep(0.001)
                        elif op == "park":
                            await trio.Event().wait()
                        elif op in ("shutdown", "stop"):
                            await trio.to_thread.run_sync(stop_runtime, op)
                        elif not sync_instr(instr):
                            raise AssertionError("bad instruction %r" % (instr,))
                        w.ev(pid, "step")
                    if spec.get("end", ["return", "None"])[0] == "forever":
                        while True:
                            await trio.sleep(0.05)
                    w.ev(pid, "finish")
                    return w.finish(spec)
                except trio.Cancelled:
                    w.ev(pid, "cancelled", exc="trio.Cancelled")
                    raise
                finally:
                    w.ev(pid, "cleanup-begin")
                    cleanup_ops()
                    if cleanup.get("sync_ms"):
                        time.sleep(cleanup["sync_ms"] / 1000)
                    if cleanup.get("shield_ms"):
                        with trio.CancelScope(shield=True):
                            await trio.sleep(cleanup["shield_ms"] / 1000)
                            w.ev(pid, "step", shielded=True)
                    w.ev(pid, "cleanup-done")
        else:
            def payload(*args, **kwargs):
                start(args, kwargs)
                for instr in program:
                    op = instr[0]
                    if op == "sleep":
                        time.sleep(instr[1] / 1000)
                    elif op == "spin":
                        for _ in range(instr[1]):
                            time.sleep(0)
                    elif op == "beat":
                        for _ in range(instr[2]):
                            time.sleep(instr[1] / 1000)
                            w.ev(pid, "beat")
                    elif op == "wait":
                        w.event(instr[1]).wait(60)
                    elif op == "block":
                        w.ev(pid, "block-begin")
                        w.release.wait(instr[1] / 1000)
                        w.ev(pid, "block-end")
                    elif op in ("mark-begin", "mark-end"):
                        w.ev(pid, op)
                    elif op == "adopt-private":
                        # the thread payload drives an event loop of its own and adopts from inside it
                        child = w.specs[instr[1]]
                        if instr[2] == "asyncio":
                            async def _inner():
                                w.submit(child, "adopt", "payload:%d:threading+private-asyncio" % pid)
                                await asyncio.sleep(instr[3] / 1000)
                            asyncio.run(_inner())
                        else:
                            async def _inner():
                                w.submit(child, "adopt", "payload:%d:threading+private-trio" % pid)
                                await trio.sleep(instr[3] / 1000)
                            trio.run(_inner)
                    elif op in ("shutdown", "stop"):
                        stop_runtime(op)
                    elif not sync_instr(instr):
                        raise AssertionError("bad instruction %r" % (instr,))
                    w.ev(pid, "step")
                if spec.get("end", ["return", "None"])[0] == "forever":
                    w.release.wait(120)
                    return None
                w.ev(pid, "finish")
                return w.finish(spec)
        shape = spec.get("callable")
        if shape == "sync-raise" and flavour != "threading" and spec.get("end", ["return"])[0] == "raise":
            # a plain callable standing in for a coroutine function (Callable[[], Awaitable]) that fails before it hands back
            # its awaitable
            def payload(*args, **kwargs):  # noqa: F811
                start(args, kwargs)
                w.ev(pid, "finish")
                return w.finish(spec)
        payload.__name__ = payload.__qualname__ = "payload_%d_%s" % (pid, flavour)
        if shape == "no-module":
            payload.__module__ = None  # as for functions made by exec() with bare globals, or methods of builtin containers
        elif shape == "partial":
            payload = functools.partial(payload)
        elif shape == "instance":
            inner = payload
            if flavour == "threading":
                class Callable_:
                    def __call__(self, /, *args, **kwargs):
                        return inner(*args, **kwargs)
            else:
                class Callable_:
                    async def __call__(self, /, *args, **kwargs):
                        return await inner(*args, **kwargs)
            payload = Callable_()
        elif shape == "method":
            inner = payload
            if flavour == "threading":
                class Holder:
                    def go(self, /, *args, **kwargs):
                        return inner(*args, **kwargs)
            else:
                class Holder:
                    async def go(self, /, *args, **kwargs):
                        return await inner(*args, **kwargs)
            payload = Holder().go
        return payload

    def service_class(self, spec):
        from cobald.daemon import service

        run = self.build(spec)
        flavour = FLAVOURS[spec["flavour"]]
        bases = ()
        if spec.get("refines"):
            # a @service class of another flavour that the payload's class refines: the flavour declared last counts
            if spec["refines"] == "threading":
                class Base:
                    def run(self):
                        raise AssertionError("the refined run() was started")
            else:
                class Base:
                    async def run(self):
                        raise AssertionError("the refined run() was started")
            Base.__name__ = Base.__qualname__ = "SvcBase_%d" % spec["id"]
            bases = (service(flavour=FLAVOURS[spec["refines"]])(Base),)
        if spec["flavour"] == "threading":
            class Svc(*bases):
                def run(self):
                    return run()
        else:
            class Svc(*bases):
                async def run(self):
                    return await run()
        Svc.__name__ = Svc.__qualname__ = "Svc_%d" % spec["id"]
        if spec.get("singleton"):
            # a service that exists once: constructing it again hands out the existing instance
            the_one = []

            def __new__(cls, *args, **kwargs):
                if not the_one:
                    the_one.append(object.__new__(cls))
                return the_one[0]

            Svc.__new__ = __new__
        if spec.get("value_semantics") == "equal":
            # distinct live service instances that compare and hash equal (a dataclass-like service)
            Svc._verif_equal = True
            Svc.__eq__ = lambda self, other: getattr(other, "_verif_equal", False)
            Svc.__hash__ = lambda self: 17
        elif spec.get("value_semantics") == "unhashable":
            Svc.__eq__ = lambda self, other: self is other
            Svc.__hash__ = None
        return service(flavour=flavour)(Svc)


class MetaRunnerAdapter:
    """gives a bare MetaRunner the adopt/execute vocabulary of the scenarios"""

    def __init__(self):
        from cobald.daemon.runners.meta_runner import MetaRunner
        import functools

        self._functools = functools
        self.meta = MetaRunner()
        self.running = self.meta.running

    def adopt(self, payload, *args, flavour, **kwargs):
        if args or kwargs:
            payload = self._functools.partial(payload, *args, **kwargs)
        return self.meta.register_payload(payload, flavour=flavour)

    def execute(self, payload, *args, flavour, **kwargs):
        if args or kwargs:
            payload = self._functools.partial(payload, *args, **kwargs)
        return self.meta.run_payload(payload, flavour=flavour)

    def accept(self):
        return self.meta.run()

    def shutdown(self):
        return self.meta.stop()


def safe_repr(e):
    try:
        return repr(e)[:200]
    except Exception:  # noqa
        return "<unrepresentable %s>" % type(e).__name__


def _members(group):
    for m in group.exceptions:
        yield m
        if isinstance(m, BaseExceptionGroup):
            yield from _members(m)


def describe_exc(w, e, depth=0):
    """tree of an exception: type, which injected failure it is, group members, cause, context"""
    if e is None or depth > 6:
        return None
    from cobald.daemon.runners.base_runner import OrphanedReturn

    node = {"type": type(e).__name__, "repr": safe_repr(e), "is_exception": isinstance(e, Exception)}
    for pid, exc in w.injected.items():
        if exc is e:
            node["injected"] = pid
        elif isinstance(exc, BaseExceptionGroup) and any(m is e for m in _members(exc)):
            node["injected"] = pid  # a member of an injected group (frameworks may re-create the group object)
            node["member_of_injected_group"] = True
    if isinstance(e, OrphanedReturn):
        node["orphan"] = True
        for pid, val in w.returned.items():
            if getattr(e, "value", node) is val:
                node["orphan_value_of"] = pid
    if isinstance(e, BaseExceptionGroup):
        node["group"] = [describe_exc(w, sub, depth + 1) for sub in e.exceptions]
    if e.__cause__ is not None:
        node["cause"] = describe_exc(w, e.__cause__, depth + 1)
    if e.__context__ is not None and e.__context__ is not e.__cause__:
        node["context"] = describe_exc(w, e.__context__, depth + 1)
    return node


# ------------------------------------------------------------------------------------------ the child
def _driver(w, script, who):
    """an outside thread executing timed operations"""
    try:
        deadline = time.monotonic() + 20
        while not w.runner.running.is_set():
            if w.ended.is_set():
                w.ops.append({"op": "driver", "by": who, "skipped": "the blocking call ended before this driver saw it running"})
                return
            if time.monotonic() > deadline:
                w.ops.append({"op": "driver", "by": who, "error": "runner never reported running"})
                return
            time.sleep(0.0003)
        t_run = time.monotonic()
        w.ev(None, "running-seen", by=who)
        for step in script:
            delay = t_run + step.get("at_ms", 0) / 1000 - time.monotonic()
            if delay > 0:
                time.sleep(delay)
            op = step["op"]
            if op in ("adopt", "execute", "service"):
                w.submit(w.specs[step["pid"]], op, who)
            elif op in ("shutdown", "stop"):
                rec = {"op": op, "by": who, "t_call": w.now()}
                w.ev(None, "shutdown-call", by=who)
                try:
                    w.runner.shutdown()
                    rec["result"] = "returned"
                except BaseException as e:  # noqa
                    rec["raised"] = type(e).__name__
                    rec["raised_repr"] = safe_repr(e)
                rec["t_return"] = w.now()
                w.ops.append(rec)
            elif op == "sigint":
                w.ops.append({"op": "sigint", "by": who, "t_call": w.now()})
                # to the main thread, as a terminal's Ctrl-C practically always is: a process-directed signal that the kernel happens to
                # route to another thread only sets CPython's flag and does not interrupt the main thread's select() - asyncio.run
                # installs its handler without a wake-up descriptor, so an otherwise idle asyncio loop would not notice it
                signal.pthread_kill(threading.main_thread().ident, signal.SIGINT)
            elif op == "accept2":
                from cobald.daemon.runners.service import ServiceRunner

                if w.ended.is_set():
                    w.ops.append({"op": "accept2", "by": who, "skipped": "the active accept had already ended"})
                    continue
                other = w.runner if step.get("same") else ServiceRunner(accept_delay=0.01)
                if not step.get("same"):
                    # should this accept ever get through (a defect, or the active accept ending just now), it stops itself
                    def _self_stop(runner=other):
                        runner.running.wait(30)
                        time.sleep(0.05)
                        runner.shutdown()

                    other.adopt(_self_stop, flavour=threading)
                rec = {"op": "accept2", "by": who, "t_call": w.now(), "same": bool(step.get("same"))}
                try:
                    other.accept()
                    rec["result"] = "returned"
                except BaseException as e:  # noqa
                    rec["raised"] = type(e).__name__
                rec["t_return"] = w.now()
                rec["running_after"] = w.runner.running.is_set()
                w.ops.append(rec)
            elif op == "set":
                w.event(step["name"]).set()
            elif op == "gc":
                gc.collect()
            elif op == "drop-service":
                # forget a service instance (it is garbage collected if nothing else holds it, e.g. after its run() returned)
                w.services[:] = [x for x in w.services if getattr(x, "_verif_pid", None) != step["pid"]]
                gc.collect()
                w.ev(None, "dropped", which=step["pid"])
            elif op == "sleep":
                time.sleep(step["ms"] / 1000)
            elif op == "mark":
                w.ev(None, "mark", name=step["name"])
            elif op == "await-beats":
                # bounded liveness: every listed payload logs k further beats (from now) within timeout_ms
                t_from = w.now()
                end = time.monotonic() + step.get("timeout_ms", 5000) / 1000
                missing = list(step["pids"])
                while time.monotonic() < end:
                    counts = {}
                    for e in list(w.log):
                        if e[3] == "beat" and e[0] > t_from:
                            counts[e[2]] = counts.get(e[2], 0) + 1
                    missing = [p for p in step["pids"] if counts.get(p, 0) < step.get("k", 2)]
                    if not missing:
                        break
                    time.sleep(0.002)
                w.ev(None, "beats", name=step.get("name", "beats"), missing=missing, waited_ms=(w.now() - t_from) / 1e6)
            elif op == "await-ops":
                end = time.monotonic() + step.get("timeout_ms", 20000) / 1000
                while time.monotonic() < end:
                    if sum(1 for o in list(w.ops) if o.get("op") == step["kind"] and "t_return" in o) >= step["n"]:
                        break
                    time.sleep(0.002)
            elif op == "await-starts-of":
                end = time.monotonic() + step.get("timeout_ms", 10000) / 1000
                while time.monotonic() < end:
                    seen = {e[2] for e in list(w.log) if e[3] == "finish" or e[3] == "start"}
                    if all(p in {e[2] for e in list(w.log) if e[3] == "finish"} for p in step["pids"]):
                        break
                    time.sleep(0.002)
            elif op == "await-starts":
                # quiescence: wait until n distinct payloads have logged their start (or give up after timeout_ms)
                end = time.monotonic() + step.get("timeout_ms", 20000) / 1000
                while time.monotonic() < end:
                    seen = {e[2] for e in list(w.log) if e[3] == "start"}
                    if len(seen) >= step["n"]:
                        break
                    time.sleep(0.002)
                w.ev(None, "quiescent", seen=len({e[2] for e in list(w.log) if e[3] == "start"}), wanted=step["n"])
    except BaseException as e:  # noqa
        w.ops.append({"op": "driver", "by": who, "error": "%s: %s" % (type(e).__name__, e), "tb": traceback.format_exc()[-800:]})


def _episode(w, sc):
    """one accept()/run() in the main thread; returns the outcome dict"""
    from cobald.daemon.runners.service import ServiceRunner

    w.ended.clear()
    if sc.get("reuse_runner") and w.runner is not None:
        pass  # the same runner instance is started again
    elif sc.get("runner", "service") == "meta":
        w.runner = MetaRunnerAdapter()
    else:
        w.runner = ServiceRunner(accept_delay=sc.get("accept_delay", 0.01))
    # before start
    for spec in sc.get("payloads", []):
        reg = spec.get("reg", {"how": "pre"})
        if reg["how"] == "pre":
            w.submit(spec, "adopt", "pre")
        elif reg["how"] == "pre-service":
            w.submit(spec, "service", "pre")
    drivers = []
    for i, script in enumerate(sc.get("drivers", [])):
        t = threading.Thread(target=_driver, args=(w, script, "outside:%d" % i), daemon=True)
        t.start()
        drivers.append(t)
    outcome = {}
    barrier = None
    if sc.get("simultaneous"):
        # two runners call accept() at the same moment: one must win, the other must be rejected at once
        other = ServiceRunner(accept_delay=sc.get("accept_delay", 0.01))
        barrier = threading.Barrier(2)
        helper_out = outcome["helper"] = {}

        def helper():
            try:
                barrier.wait(10)
            except threading.BrokenBarrierError:
                pass
            helper_out["t_begin"] = w.now()
            try:
                other.accept()
                helper_out["how"] = "returned"
            except BaseException as e:  # noqa
                helper_out["how"] = "raised"
                helper_out["type"] = type(e).__name__
                helper_out["repr"] = safe_repr(e)
            helper_out["t_end"] = w.now()

        def closer():
            end = time.monotonic() + 10
            while not (w.runner.running.is_set() or other.running.is_set()) and time.monotonic() < end:
                time.sleep(0.001)
            outcome["winner"] = "main" if w.runner.running.is_set() else "helper" if other.running.is_set() else None
            time.sleep(sc["simultaneous"].get("run_ms", 40) / 1000)
            outcome["both_running"] = w.runner.running.is_set() and other.running.is_set()
            for r in (w.runner, other):
                try:
                    r.shutdown()
                except BaseException as e:  # noqa
                    outcome.setdefault("shutdown_errors", []).append(safe_repr(e))

        for fn in (helper, closer):
            t = threading.Thread(target=fn, daemon=True)
            t.start()
            drivers.append(t)
    t_begin = w.now()
    signal.signal(signal.SIGINT, signal.default_int_handler)
    if barrier is not None:
        try:
            barrier.wait(10)
        except threading.BrokenBarrierError:
            pass
        t_begin = w.now()
    try:
        try:
            w.runner.accept()
            outcome["t_end"] = w.now()
            outcome["how"] = "returned"
        except BaseException as e:  # noqa
            outcome["t_end"] = w.now()
            outcome["how"] = "raised"
            outcome["exc"] = describe_exc(w, e)
        finally:
            # a SIGINT scheduled by a driver may arrive after the call has ended: it is not for the harness
            signal.signal(signal.SIGINT, signal.SIG_IGN)
    except KeyboardInterrupt:
        signal.signal(signal.SIGINT, signal.SIG_IGN)
        outcome["late_sigint"] = True
        outcome.setdefault("how", "returned")
        outcome.setdefault("t_end", w.now())
    w.ended.set()
    outcome["t_begin"] = t_begin
    return outcome, drivers


def install_trace_delay(spec):
    """schedule perturbation owned by the harness: sleep at every line of the named source files, with a
    different delay per thread, so that threads interleave at line granularity inside those (small) modules"""
    files = tuple(spec["files"])
    delays = spec["delays_ms"]
    main_id = threading.main_thread().ident

    def local(frame, event, arg):
        if event == "line":
            d = delays[0] if threading.get_ident() == main_id else delays[1 + (threading.get_ident() % (len(delays) - 1))]
            if d:
                time.sleep(d / 1000)
        return local

    def tracer(frame, event, arg):
        if event == "call" and frame.f_code.co_filename.endswith(files):
            return local
        return None

    threading.settrace(tracer)
    sys.settrace(tracer)


def _child(scenario, wfd):
    signal.signal(signal.SIGINT, signal.default_int_handler)
    logging.getLogger().handlers = [logging.NullHandler()]
    logging.getLogger().setLevel(logging.CRITICAL + 10)
    if scenario.get("switchinterval"):
        sys.setswitchinterval(scenario["switchinterval"])
    w = World(scenario)
    if scenario.get("trace_delay"):
        install_trace_delay(scenario["trace_delay"])
    bound = scenario.get("bound_s", 20)
    done = threading.Event()
    result = {"hang": False}

    def dump():
        result["log"] = list(w.log)
        result["ops"] = list(w.ops)
        result["injected"] = {str(k): type(v).__name__ for k, v in w.injected.items()}
        result["returned"] = {str(k): safe_repr(v) for k, v in w.returned.items()}
        data = json.dumps(result, default=repr).encode()
        os.write(wfd, len(data).to_bytes(8, "big"))
        view = memoryview(data)
        while view:
            n = os.write(wfd, view[:65536])
            view = view[n:]

    def watchdog():
        if not done.wait(bound):
            result["hang"] = True
            full = bool(os.environ.get("VERIF_FULL_STACKS"))
            result["hang_threads"] = {str(t.ident): "".join(traceback.format_stack(sys._current_frames()[t.ident])[-(40 if full else 3):])[-(8000 if full else 500):]
                                      for t in threading.enumerate() if t.ident in sys._current_frames()}
            if full:
                try:
                    result["asyncio_tasks"] = [repr(t)[:600] for loop_ in [getattr(getattr(w.runner, "_meta_runner", w.runner), "_runners", {})] for t in []]
                except Exception:  # noqa
                    pass
            result["episodes"] = result.get("episodes", [])
            try:
                dump()
            finally:
                os._exit(3)

    threading.Thread(target=watchdog, daemon=True).start()
    try:
        episodes = scenario.get("episodes") or [scenario]
        result["episodes"] = []
        for ep_index, sc in enumerate(episodes):
            w.sc = sc
            w.specs.update({p["id"]: p for p in sc.get("payloads", [])})
            outcome, drivers = _episode(w, sc)
            result["episodes"].append(outcome)
            # keep listening for late events, then let the drivers finish
            time.sleep(sc.get("linger_ms", 100) / 1000)
            for t in drivers:
                t.join(5)
            if any(t.is_alive() for t in drivers) and not isinstance(w.runner, MetaRunnerAdapter):
                # a driver may be stuck in an accept() on the same instance that got through after the active accept
                # had ended: stop that run so that it cannot hold the process-wide guard into the next episode
                stopper = threading.Thread(target=w.runner.shutdown, daemon=True)
                stopper.start()
                stopper.join(5)
                for t in drivers:
                    t.join(2)
            outcome["drivers_alive"] = sum(1 for t in drivers if t.is_alive())
            outcome["t_linger_end"] = w.now()
            for o in list(w.ops):
                o.setdefault("ep", ep_index)
            for e in list(w.log):
                if len(e) == 5:
                    e.append(ep_index)
        w.release.set()
        done.set()
        dump()
    except BaseException as e:  # noqa
        result["worker_error"] = "%s: %s\n%s" % (type(e).__name__, e, traceback.format_exc()[-1500:])
        done.set()
        try:
            dump()
        except BaseException:  # noqa
            pass
    os._exit(0)


def run_scenario(scenario):
    """fork, run the scenario in the child, return its observation (dict)"""
    rfd, wfd = os.pipe()
    sys.stdout.flush()
    sys.stderr.flush()
    pid = os.fork()
    if pid == 0:
        try:
            os.close(rfd)
            _child(scenario, wfd)
        finally:
            os._exit(4)
    os.close(wfd)
    bound = scenario.get("bound_s", 20) + 15
    deadline = time.monotonic() + bound
    buf = bytearray()
    want = None
    try:
        while True:
            left = deadline - time.monotonic()
            if left <= 0:
                break
            r, _, _ = select.select([rfd], [], [], min(left, 1.0))
            if not r:
                continue
            chunk = os.read(rfd, 1 << 20)
            if not chunk:
                break
            buf += chunk
            if want is None and len(buf) >= 8:
                want = int.from_bytes(buf[:8], "big")
            if want is not None and len(buf) >= 8 + want:
                break
    finally:
        os.close(rfd)
        try:
            os.kill(pid, signal.SIGKILL)
        except ProcessLookupError:
            pass
        try:
            os.waitpid(pid, 0)
        except ChildProcessError:
            pass
    if want is None or len(buf) < 8 + want:
        return {"worker_error": "no observation from the worker (killed after %ss)" % bound, "hang": True, "log": [], "ops": [], "episodes": []}
    return json.loads(bytes(buf[8:8 + want]))
