"""E-plugins: per-process scratch directory on sys.path holding fixture packages and
*.dist-info/entry_points.txt files, so that the real discovery paths are exercised."""
import atexit
import importlib
import os
import shutil
import sys
import tempfile

_DIR = None


def scratch_dir():
    global _DIR
    if _DIR is None:
        _DIR = tempfile.mkdtemp(prefix="verif-scratch-")
        sys.path.insert(0, _DIR)
        pid = os.getpid()

        def _cleanup(d=_DIR, pid=pid):
            if os.getpid() == pid:
                shutil.rmtree(d, ignore_errors=True)

        atexit.register(_cleanup)
    return _DIR


def cleanup_now():
    global _DIR
    if _DIR is not None:
        shutil.rmtree(_DIR, ignore_errors=True)


def write_module(relpath, source):
    path = os.path.join(scratch_dir(), relpath)
    os.makedirs(os.path.dirname(path), exist_ok=True)
    with open(path, "w") as f:
        f.write(source)
    importlib.invalidate_caches()
    return path


def write_entry_points(dist_name, groups):
    """groups: {group: {name: 'module:attr'}} -> <dist_name>-0.dist-info/entry_points.txt"""
    d = os.path.join(scratch_dir(), f"{dist_name}-0.dist-info")
    os.makedirs(d, exist_ok=True)
    lines = []
    for group, entries in groups.items():
        lines.append(f"[{group}]")
        for name, target in entries.items():
            lines.append(f"{name} = {target}")
        lines.append("")
    with open(os.path.join(d, "entry_points.txt"), "w") as f:
        f.write("\n".join(lines))
    with open(os.path.join(d, "METADATA"), "w") as f:
        f.write(f"Metadata-Version: 2.1\nName: {dist_name}\nVersion: 0\n")
    return d


def remove_entry_points(dist_name):
    shutil.rmtree(os.path.join(scratch_dir(), f"{dist_name}-0.dist-info"), ignore_errors=True)
