"""Shared Hypothesis strategies: numbers on / next to thresholds, dyadic rationals, ..."""
import math
from fractions import Fraction

from hypothesis import strategies as st

INF = float("inf")


def dyadic(lo=-64, hi=320, bits=3):
    """k / 2**bits as float (exact), lo <= value <= hi"""
    den = 2 ** bits
    return st.integers(lo * den, hi * den).map(lambda k: k / den)


def small_number(lo=-20, hi=300):
    return st.one_of(st.integers(lo, hi), dyadic(lo, hi))


def positive_number(hi=300):
    return st.one_of(st.integers(1, hi), st.integers(1, hi * 8).map(lambda k: k / 8))


def frac(x):
    """Exact rational value of a finite int/float; +-inf stay floats"""
    if isinstance(x, float) and math.isinf(x):
        return x
    return Fraction(x)


def near(t):
    """Values on and next to a finite threshold t (floats)"""
    t = float(t)
    return [t, math.nextafter(t, INF), math.nextafter(t, -INF), t + 1, t - 1]
