"""Parent runner: ./check <ID> --tier quick|thorough [--replay FILE]

Spawns the shards of one property check, merges their fragments, writes the evidence
file, prints VIOLATION / KNOWN-FINDING lines and sets the exit code:
0 = held on everything explored, 1 = violation, 2 = harness error / inconclusive.
"""
import argparse
import collections
import importlib
import json
import os
import shutil
import subprocess
import sys
import tempfile
import time

from .core import load_known_findings, canon, strict_json

HOME = os.environ.get("VERIF_HOME", os.path.dirname(os.path.dirname(os.path.abspath(__file__))))


def replay_root():
    """replays/ for /repo itself; a separate sub-directory per scratch copy (selftest runs in parallel)"""
    repo = os.path.realpath(os.environ.get("VERIF_REPO", "/repo"))
    if repo == "/repo":
        return os.path.join(HOME, "replays")
    return os.path.join(HOME, "replays", "_scratch", repo.strip("/").replace("/", "_"))


def eprint(*a):
    print(*a, file=sys.stderr, flush=True)


def replay(mod, prop, path, tier):
    from .shard import Collector

    with open(path) as f:
        payload = json.load(f)
    tests = {t.name: t for t in mod.tests(tier)}
    td = tests.get(payload.get("test"))
    if td is None:
        eprint(f"HARNESS-ERROR: replay file names unknown test {payload.get('test')!r}")
        return 2
    col = Collector(prop, 0, mod)
    runs = getattr(td, "replay_runs", 1) or 1
    bad = 0
    first = None
    for _ in range(runs):
        res = td.run(payload["spec"])
        new, known = col.classify(td.name, payload["spec"], res)
        if new:
            bad += 1
            first = first or new[0]
    if bad:
        print(f"replay: {bad} of {runs} runs violate: [{first.clause}] {first.message}")
        print(f"VIOLATION property={prop} replay={path}")
        return 1
    print(f"replay: property held in {runs} run(s) of {path}")
    return 0


def main(argv=None):
    ap = argparse.ArgumentParser()
    ap.add_argument("prop")
    ap.add_argument("--tier", default=os.environ.get("VERIF_TIER", "quick"), choices=["quick", "thorough"])
    ap.add_argument("--replay", default=None)
    ap.add_argument("--only", default=None, help="run a single test of the property")
    ap.add_argument("--shards", type=int, default=None)
    ap.add_argument("--no-evidence", action="store_true")
    a = ap.parse_args(argv)
    prop = a.prop.upper()
    seed = int(os.environ.get("VERIF_SEED", "1") or "1")
    t0 = time.time()
    try:
        mod = importlib.import_module("props." + prop.lower())
    except Exception as e:
        eprint(f"HARNESS-ERROR: cannot import property module for {prop}: {type(e).__name__}: {e}")
        return 2
    if a.replay:
        return replay(mod, prop, a.replay, a.tier)

    tests = mod.tests(a.tier)
    nshards = a.shards or max(
        (t.shards_quick if a.tier == "quick" else t.shards_thorough) for t in tests
    )
    nshards = max(1, min(nshards, 16))
    # stale replays of this property are removed: files found afterwards are from this run
    shutil.rmtree(os.path.join(replay_root(), prop), ignore_errors=True)
    tmp = tempfile.mkdtemp(prefix=f"verif-{prop}-")
    procs = []
    timeout = float(os.environ.get("VERIF_SHARD_TIMEOUT", getattr(mod, "SHARD_TIMEOUT", {}).get(a.tier, 3600 if a.tier == "quick" else 6 * 3600)))
    try:
        for i in range(nshards):
            out = os.path.join(tmp, f"frag{i}.json")
            cmd = [sys.executable, "-m", "vlib.shard", "--prop", prop, "--tier", a.tier,
                   "--seed", str(seed), "--shard", str(i), "--nshards", str(nshards), "--out", out]
            if a.only:
                cmd += ["--only", a.only]
            log = open(os.path.join(tmp, f"log{i}.txt"), "w")
            procs.append((i, subprocess.Popen(cmd, stdout=log, stderr=subprocess.STDOUT, cwd=HOME), out, log))
        frags, errors = [], []
        deadline = time.time() + timeout
        for i, p, out, log in procs:
            try:
                p.wait(timeout=max(1, deadline - time.time()))
            except subprocess.TimeoutExpired:
                p.kill()
                p.wait()
                errors.append(f"shard {i}: exceeded harness time guard ({timeout}s): inconclusive")
                continue
            finally:
                log.close()
            try:
                with open(out) as f:
                    frag = json.load(f)
            except Exception:
                try:
                    tail = open(os.path.join(tmp, f"log{i}.txt")).read()[-3000:]
                except OSError:
                    tail = "(shard log missing)"
                errors.append(f"shard {i}: no fragment (exit {p.returncode})\n{tail}")
                continue
            if not frag.get("ok"):
                errors.append(f"shard {i}: {frag.get('error')}")
                continue
            frags.append(frag)
    finally:
        for _i, p, _o, _l in procs:
            if p.poll() is None:
                p.kill()
        shutil.rmtree(tmp, ignore_errors=True)

    # ---- merge
    per_test = {}
    failures = []
    known_hits = collections.Counter()
    for frag in frags:
        for name, t in frag["tests"].items():
            m = per_test.setdefault(name, {"evaluations": 0, "nontrivial": set(), "classes": collections.Counter(),
                                           "samples": [], "excluded": 0, "exhaustive": False, "wall_s": 0.0})
            m["evaluations"] += t["evaluations"]
            m["nontrivial"].update(t["nontrivial"])
            m["classes"].update(t["classes"])
            if len(m["samples"]) < 3:
                m["samples"].extend(t["samples"][: 3 - len(m["samples"])])
            m["excluded"] += t["excluded"]
            m["exhaustive"] = m["exhaustive"] or t["exhaustive"]
            m["wall_s"] = max(m["wall_s"], t["wall_s"])
        failures.extend(frag["failures"])
        known_hits.update(frag["known_hits"])

    evaluations = sum(m["evaluations"] for m in per_test.values())
    distinct_nt = sum(len(m["nontrivial"]) for m in per_test.values())
    samples = []
    for name, m in per_test.items():
        for s in m["samples"][:2]:
            samples.append({"test": name, "case": s})
    wall = round(time.time() - t0, 2)

    # root causes: bucket by (test, clause); keep the smallest replay
    buckets = {}
    for f in failures:
        k = (f["test"], f["clause"])
        if k not in buckets or f["size"] < buckets[k]["size"]:
            buckets[k] = f

    known_open = [e for e in load_known_findings(os.path.join(HOME, "known_findings.json"))
                  if e.get("property") == prop and e.get("status") == "open"]

    if not a.no_evidence and not a.only:
        ev = {
            "property_id": prop,
            "tier": a.tier,
            "seed": seed,
            "level": mod.LEVEL,
            "coverage": {
                "evaluations": evaluations,
                "distinct_nontrivial": distinct_nt,
                "rule": mod.RULE,
                "samples": samples[:12],
                "shards": nshards,
                "per_test": {
                    name: {
                        "evaluations": m["evaluations"],
                        "distinct_nontrivial": len(m["nontrivial"]),
                        "exhaustive": m["exhaustive"],
                        "excluded_known": m["excluded"],
                        "classes": dict(sorted(m["classes"].items(), key=lambda kv: (-kv[1], kv[0]))[:80]),
                        "max_shard_wall_s": m["wall_s"],
                    }
                    for name, m in sorted(per_test.items())
                },
                "exhaustive": bool(per_test) and all(m["exhaustive"] for m in per_test.values()),
                "known_findings_reproduced": dict(known_hits),
                "harness_errors": errors,
            },
            "assumptions": list(getattr(mod, "ASSUMPTIONS", [])),
            "wall_s": wall,
            "violations": len(buckets),
        }
        os.makedirs(os.path.join(HOME, "evidence"), exist_ok=True)
        path = os.path.join(HOME, "evidence", f"{prop}.json")
        with open(path + ".tmp", "w") as f:
            json.dump(strict_json(ev), f, indent=1, sort_keys=True, allow_nan=False)
        os.replace(path + ".tmp", path)

    for e in known_open:
        key = e.get("id", e.get("clause"))
        if known_hits.get(key):
            print(f"KNOWN-FINDING: property={prop} {e.get('what', key)} (reproduced {known_hits[key]}x)")
    for (test, clause), f in sorted(buckets.items()):
        print(f"violation: test={test} clause={clause}: {f['message'][:600]}")
        print(f"VIOLATION property={prop} replay={f['replay']}")
    summary = ", ".join(f"{n}:{m['evaluations']}/{len(m['nontrivial'])}nt" for n, m in sorted(per_test.items()))
    print(f"{prop} {a.tier} seed={seed}: {evaluations} cases, {distinct_nt} distinct non-trivial [{summary}] in {wall}s, "
          f"{len(buckets)} violation bucket(s), {len(errors)} harness error(s)")
    if buckets:
        return 1
    if errors:
        seen = set()
        for e in errors:
            key = e.split(":", 1)[-1][:300]
            if key in seen:
                continue
            seen.add(key)
            eprint("HARNESS-ERROR:", e[:2500])
        return 2
    if evaluations == 0:
        eprint("HARNESS-ERROR: no case was executed")
        return 2
    return 0


def _guarded():
    try:
        return main()
    except SystemExit:
        raise
    except BaseException as e:  # a crash of the runner itself is a harness error, never a verdict
        import traceback

        eprint(f"HARNESS-ERROR: runner crashed: {type(e).__name__}: {e}\n{traceback.format_exc()[-1500:]}")
        return 2


if __name__ == "__main__":
    sys.exit(_guarded())
