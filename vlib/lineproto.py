"""Independent reference parser for the InfluxDB (1.x) line protocol.

Rules (docs.influxdata.com, line protocol reference):
  <measurement>[,<tag_key>=<tag_value>...] <field_key>=<field_value>[,...] [<timestamp>]
  * measurement escapes ',' and ' '; tag keys, tag values and field keys escape ',', '=' and ' ';
  * a backslash that is not followed by an escapable character is a literal backslash;
  * string field values are double quoted and escape '"' and '\\';
  * booleans are t/T/true/True/TRUE/f/F/false/False/FALSE; integers carry an 'i' suffix,
    unsuffixed numbers are floats; the timestamp is an integer.
"""


class LineProtocolError(ValueError):
    pass


def _scan(line, i, stops, escapable):
    """Read from line[i:] up to an unescaped char in `stops`; returns (decoded, index of stop or len)"""
    out = []
    n = len(line)
    while i < n:
        ch = line[i]
        if ch == "\\" and i + 1 < n and line[i + 1] in escapable:
            out.append(line[i + 1])
            i += 2
            continue
        if ch in stops:
            return "".join(out), i
        out.append(ch)
        i += 1
    return "".join(out), i


def _scan_string(line, i):
    assert line[i] == '"'
    i += 1
    out = []
    n = len(line)
    while i < n:
        ch = line[i]
        if ch == "\\" and i + 1 < n and line[i + 1] in '"\\':
            out.append(line[i + 1])
            i += 2
            continue
        if ch == '"':
            return "".join(out), i + 1
        out.append(ch)
        i += 1
    raise LineProtocolError("unterminated string field value")


BOOLS = {"t": True, "T": True, "true": True, "True": True, "TRUE": True,
         "f": False, "F": False, "false": False, "False": False, "FALSE": False}


def parse_line(text):
    """Parse one line (with its trailing newline) -> (measurement, tags, fields, timestamp|None)

    fields maps key -> (kind, value) with kind in {'string','bool','float','int'}"""
    if not text.endswith("\n"):
        raise LineProtocolError("line is not newline terminated")
    line = text[:-1]
    if "\n" in line or "\r" in line:
        raise LineProtocolError("more than one line")
    if not line or line[0] == "#":
        raise LineProtocolError("empty line or comment")
    measurement, i = _scan(line, 0, ", ", ", ")
    if not measurement:
        raise LineProtocolError("empty measurement")
    tags = {}
    while i < len(line) and line[i] == ",":
        key, i = _scan(line, i + 1, "=, ", ",= ")
        if i >= len(line) or line[i] != "=" or not key:
            raise LineProtocolError("malformed tag key at %d" % i)
        value, i = _scan(line, i + 1, ", ", ",= ")
        if not value:
            raise LineProtocolError("empty tag value for %r" % key)
        if key in tags:
            raise LineProtocolError("duplicate tag %r" % key)
        tags[key] = value
    if i >= len(line) or line[i] != " ":
        raise LineProtocolError("missing field set")
    i += 1
    fields = {}
    while True:
        key, i = _scan(line, i, "=, ", ",= ")
        if i >= len(line) or line[i] != "=" or not key:
            raise LineProtocolError("malformed field key at %d" % i)
        i += 1
        if i < len(line) and line[i] == '"':
            value, i = _scan_string(line, i)
            item = ("string", value)
        else:
            j = i
            while j < len(line) and line[j] not in ", ":
                j += 1
            raw = line[i:j]
            i = j
            if raw in BOOLS:
                item = ("bool", BOOLS[raw])
            elif raw.endswith("i") and raw[:-1].lstrip("+-").isdigit():
                item = ("int", int(raw[:-1]))
            elif raw.endswith("u") and raw[:-1].isdigit():
                item = ("int", int(raw[:-1]))
            else:
                try:
                    if raw.lower().lstrip("+-") in ("inf", "infinity", "nan") or "_" in raw:
                        raise ValueError(raw)
                    item = ("float", float(raw))
                except ValueError:
                    raise LineProtocolError("invalid field value %r for %r" % (raw, key)) from None
        if key in fields:
            raise LineProtocolError("duplicate field %r" % key)
        fields[key] = item
        if i < len(line) and line[i] == ",":
            i += 1
            continue
        break
    timestamp = None
    if i < len(line):
        if line[i] != " ":
            raise LineProtocolError("garbage after field set at %d: %r" % (i, line[i:]))
        raw = line[i + 1:]
        if not raw.lstrip("-").isdigit():
            raise LineProtocolError("invalid timestamp %r" % raw)
        timestamp = int(raw)
    return measurement, tags, fields, timestamp


# Reference vectors from the InfluxDB 1.x line protocol documentation (tutorial + "special characters" section):
# the parser is checked against them whenever it is used as an oracle.
_VECTORS = [
    ('weather,location=us-midwest temperature=82 1465839830100400200\n',
     ("weather", {"location": "us-midwest"}, {"temperature": ("float", 82.0)}, 1465839830100400200)),
    ('weather,location=us-midwest temperature="too warm" 1465839830100400200\n',
     ("weather", {"location": "us-midwest"}, {"temperature": ("string", "too warm")}, 1465839830100400200)),
    ('weather,location=us-midwest too_hot=true\n', ("weather", {"location": "us-midwest"}, {"too_hot": ("bool", True)}, None)),
    ('weather,location=us-midwest temperature=82i\n', ("weather", {"location": "us-midwest"}, {"temperature": ("int", 82)}, None)),
    ('weather,location=us\\,midwest temperature=82\n', ("weather", {"location": "us,midwest"}, {"temperature": ("float", 82.0)}, None)),
    ('weather,location=us-midwest temp\\=rature=82\n', ("weather", {"location": "us-midwest"}, {"temp=rature": ("float", 82.0)}, None)),
    ('weather,location\\ place=us-midwest temperature=82\n', ("weather", {"location place": "us-midwest"}, {"temperature": ("float", 82.0)}, None)),
    ('wea\\,ther,location=us-midwest temperature=82\n', ("wea,ther", {"location": "us-midwest"}, {"temperature": ("float", 82.0)}, None)),
    ('wea\\ ther,location=us-midwest temperature=82\n', ("wea ther", {"location": "us-midwest"}, {"temperature": ("float", 82.0)}, None)),
    ('weather,location=us-midwest temperature="too\\"hot\\""\n', ("weather", {"location": "us-midwest"}, {"temperature": ("string", 'too"hot"')}, None)),
    ('weather,location=us-midwest temperature_str="too hot/cold"\n', ("weather", {"location": "us-midwest"}, {"temperature_str": ("string", "too hot/cold")}, None)),
    ('weather,location=us-midwest temperature_str="too hot\\cold"\n', ("weather", {"location": "us-midwest"}, {"temperature_str": ("string", "too hot\\cold")}, None)),
    ('weather,location=us-midwest temperature_str="too hot\\\\cold"\n', ("weather", {"location": "us-midwest"}, {"temperature_str": ("string", "too hot\\cold")}, None)),
    ('"weather",location=us-midwest temperature=82,humidity=71\n', ('"weather"', {"location": "us-midwest"}, {"temperature": ("float", 82.0), "humidity": ("float", 71.0)}, None)),
]


def selfcheck():
    for text, want in _VECTORS:
        got = parse_line(text)
        if got != want:
            raise AssertionError("reference line-protocol parser disagrees with the documented example %r: %r != %r" % (text, got, want))
    for bad in ["weather temperature=82", "weather,location temperature=82\n", "weather \n", 'weather t="open\n', "# comment\n", "weather t=1 x\n"]:
        try:
            parse_line(bad)
        except LineProtocolError:
            continue
        raise AssertionError("reference line-protocol parser accepts malformed %r" % bad)
