"""Harness-owned Pool implementations (nothing from cobald_tests is used)"""
from cobald.interfaces import Pool


class StatePool(Pool):
    """Pool whose four attributes are plain settable state; records every demand write"""

    supply = demand = utilisation = allocation = 0

    def __init__(self, demand=0, supply=0, utilisation=1.0, allocation=1.0, name="pool"):
        self.writes = []
        self._demand = demand
        self.supply = supply
        self.utilisation = utilisation
        self.allocation = allocation
        self.name = name
        self.on_write = None

    @property
    def demand(self):
        return self._demand

    @demand.setter
    def demand(self, value):
        self.writes.append(value)
        if self.on_write is not None:
            self.on_write(self, value)
        self._demand = value

    def __repr__(self):
        return f"<StatePool {self.name}>"
