"""The harness's own YAML emitter (block and flow styles, tags, anchors/aliases) and value strategies.

Node encoding (JSON-able):
  {"s": scalar}                      None / bool / int / float / str
  {"l": [node...], "flow": bool}
  {"m": [[key, node]...], "flow": bool}
  {"t": "Tag", "n": node|None}       tagged node (None = bare tag)
  {"a": "name", "n": node}           anchor definition
  {"r": "name"}                      alias
  {"y": kind, "v": spec}             other native YAML types: binary (str), date "YYYY-MM-DD", datetime "YYYY-MM-DD hh:mm:ss",
                                     set [str...], omap / pairs [[str, int]...]
"""
import base64
import datetime
import json
import re

from hypothesis import strategies as st

_PLAIN = re.compile(r"^[A-Za-z][A-Za-z0-9_]*$")
_RESERVED = {"yes", "no", "on", "off", "true", "false", "null", "y", "n", "none", "nan", "inf"}


def scalar_text(v, allow_plain=True):
    if v is None:
        return "null"
    if isinstance(v, bool):
        return "true" if v else "false"
    if isinstance(v, int):
        return str(v)
    if isinstance(v, float):
        r = repr(v)
        if "e" in r:
            mant, exp = r.split("e")
            if "." not in mant:
                mant += ".0"
            if exp[0] not in "+-":
                exp = "+" + exp
            r = mant + "e" + exp
        return r
    if allow_plain and _PLAIN.match(v) and v.lower() not in _RESERVED:
        return v
    if v == "<<":  # the merge key is only a merge key when it is plain
        return v
    return json.dumps(v, ensure_ascii=False)


def typed_text(node):
    kind, v = node["y"], node["v"]
    if kind == "binary":
        return '!!binary "%s"' % base64.b64encode(v.encode("utf-8")).decode("ascii")
    if kind in ("date", "datetime"):
        return v
    if kind == "set":
        return "!!set {" + ", ".join("? " + scalar_text(k, False) for k in v) + "}"
    return "!!%s [" % kind + ", ".join("{%s: %d}" % (scalar_text(k, False), n) for k, n in v) + "]"


def typed_value(node):
    kind, v = node["y"], node["v"]
    if kind == "binary":
        return v.encode("utf-8")
    if kind == "date":
        return datetime.date(*map(int, v.split("-")))
    if kind == "datetime":
        d, t = v.split(" ")
        return datetime.datetime(*map(int, d.split("-") + t.split(":")))
    if kind == "set":
        return set(v)
    return [(k, n) for k, n in v]


def _render(node, indent, inflow):
    """-> (inline_text | None, prefix, lines)"""
    pad = " " * indent
    if "s" in node:
        return scalar_text(node["s"]), "", []
    if "y" in node:
        return typed_text(node) + (" " if inflow else ""), "", []
    if "x" in node:  # raw inline (flow style) text, e.g. a python/* tagged node
        return node["x"] + (" " if inflow else ""), "", []
    if "mk" in node:  # mapping with complex keys: always flow style
        return "{" + ", ".join("? " + _render(k, indent, True)[0] + " : " + _render(v, indent, True)[0] for k, v in node["mk"]) + "}", "", []
    if "r" in node:
        return "*" + node["r"], "", []
    if "a" in node:
        inline, prefix, lines = _render(node["n"], indent, inflow)
        if inline is not None:
            return "&" + node["a"] + " " + inline, "", []
        return None, ("&" + node["a"] + " " + prefix).strip(), lines
    if "t" in node:
        if node["n"] is None:
            # in flow context ',' and ']' would be read as part of the tag: keep a separating space
            return "!" + node["t"] + (" " if inflow else ""), "", []
        inline, prefix, lines = _render(node["n"], indent, inflow)
        if inline is not None:
            return "!" + node["t"] + " " + inline, "", []
        return None, ("!" + node["t"] + " " + prefix).strip(), lines
    if "l" in node:
        items = node["l"]
        if not items or inflow or node.get("flow"):
            return "[" + ", ".join(_render(i, indent, True)[0] for i in items) + "]", "", []
        lines = []
        for item in items:
            inline, prefix, sub = _render(item, indent + 2, False)
            if inline is not None:
                lines.append(pad + "- " + inline)
            else:
                lines.append(pad + "-" + (" " + prefix if prefix else ""))
                lines.extend(sub)
        return None, "", lines
    if "m" in node:
        items = node["m"]
        if not items or inflow or node.get("flow"):
            return "{" + ", ".join(scalar_text(k, False) + ": " + _render(v, indent, True)[0] for k, v in items) + "}", "", []
        lines = []
        for k, v in items:
            inline, prefix, sub = _render(v, indent + 2, False)
            key = scalar_text(k)
            if inline is not None:
                lines.append(pad + key + ": " + inline)
            else:
                lines.append(pad + key + ":" + (" " + prefix if prefix else ""))
                lines.extend(sub)
        return None, "", lines
    raise ValueError("bad node %r" % (node,))


def emit_document(root, directives=""):
    """root: mapping node -> YAML text; directives: e.g. '%TAG !py! tag:yaml.org,2002:python/' (adds the --- marker)"""
    head = directives + "\n---\n" if directives else ""
    inline, prefix, lines = _render(root, 0, False)
    if inline is not None:
        return head + inline + "\n"
    if prefix and head:
        head = directives + "\n--- " + prefix + "\n"
        prefix = ""
    return head + ("--- " + prefix + "\n" if prefix else "") + "\n".join(lines) + "\n"


# ---------------------------------------------------------------------------- strategies
STRINGS = ["", "text", "two words", "yes", "null", "0123", "1e3", "a: b", "- x", "#hash", "ünï ✓", 'q"uote', "it's", "back\\slash",
           "line\nbreak", "{brace}", "[x]", "!bang", "&amp", "*star", "key", "127.0.0.1", "true", " lead", "trail "]
scalars = st.one_of(st.none(), st.booleans(), st.integers(-1000, 1000), st.floats(-1e6, 1e6, allow_nan=False),
                    st.sampled_from([1e-5, 1e22, 0.1, -0.0]), st.sampled_from(STRINGS), st.text("abz _-", max_size=6))
KEYS = ["a", "b", "c", "key", "name", "x1", "interval", "two words", "yes", "0", "ünï"]


def value_nodes(tags=(), max_leaves=8):
    """strategy for value nodes; tags: list of (tagname, forms) usable inside values"""
    word = st.sampled_from(["a", "b", "low", "high", "two words", "ünï", "0"])
    typed = st.one_of(
        st.sampled_from(["hello", "", "ünï ✓", "\x00\x01"]).map(lambda v: {"y": "binary", "v": v}),
        st.sampled_from(["2001-12-14", "1999-01-01"]).map(lambda v: {"y": "date", "v": v}),
        st.sampled_from(["2001-12-14 21:59:43", "2024-02-29 00:00:00"]).map(lambda v: {"y": "datetime", "v": v}),
        st.lists(word, unique=True, max_size=3).map(lambda v: {"y": "set", "v": v}),
        st.lists(st.tuples(word, st.integers(0, 9)), unique_by=lambda kv: kv[0], max_size=3).map(lambda v: {"y": "omap", "v": [list(kv) for kv in v]}),
        st.lists(st.tuples(word, st.integers(0, 9)), max_size=3).map(lambda v: {"y": "pairs", "v": [list(kv) for kv in v]}),
    )
    leaf = st.one_of(scalars.map(lambda v: {"s": v}), scalars.map(lambda v: {"s": v}), scalars.map(lambda v: {"s": v}),
                     scalars.map(lambda v: {"s": v}), scalars.map(lambda v: {"s": v}), typed)

    def extend(children):
        opts = [
            st.builds(lambda items, flow: {"l": items, "flow": flow}, st.lists(children, max_size=3), st.booleans()),
            st.builds(lambda items, flow: {"m": [[k, v] for k, v in items.items()], "flow": flow},
                      st.dictionaries(st.sampled_from(KEYS), children, max_size=3), st.booleans()),
        ]
        for tag in tags:
            opts.append(st.builds(lambda items, flow, tag=tag: {"t": tag, "n": {"m": [[k, v] for k, v in items.items()], "flow": flow}},
                                  st.dictionaries(st.sampled_from(["a", "b", "c", "key"]), children, max_size=3), st.booleans()))
            opts.append(st.builds(lambda items, flow, tag=tag: {"t": tag, "n": {"l": items, "flow": flow}},
                                  st.lists(children, max_size=3), st.booleans()))
            opts.append(st.just({"t": tag, "n": None}))
        return st.one_of(*opts)

    return st.recursive(leaf, extend, max_leaves=max_leaves)


def add_anchors(node, draw, counter=None, defined=None):
    """post-process: turn some container nodes into anchors and reuse them later as aliases (document order)"""
    if counter is None:
        counter, defined = [0], []
    if "s" in node or "r" in node or "y" in node:
        if defined and draw(st.integers(0, 7)) == 0:
            return {"r": draw(st.sampled_from(defined))}
        return node
    make_anchor = draw(st.integers(0, 4)) == 0
    if "t" in node:
        if node["n"] is None:
            return node
        # tag and anchor are properties of the same node: never anchor the tagged node's content separately
        inner = dict(node["n"])
        if "l" in inner:
            inner["l"] = [add_anchors(i, draw, counter, defined) for i in inner["l"]]
        else:
            inner["m"] = [[k, add_anchors(v, draw, counter, defined)] for k, v in inner["m"]]
        out = {"t": node["t"], "n": inner}
        if make_anchor:
            counter[0] += 1
            name = "anc%d" % counter[0]
            defined.append(name)
            return {"a": name, "n": out}
        return out
    key = "l" if "l" in node else "m"
    out = dict(node)
    if key == "l":
        out["l"] = [add_anchors(i, draw, counter, defined) for i in node["l"]]
    else:
        out["m"] = [[k, add_anchors(v, draw, counter, defined)] for k, v in node["m"]]
    if make_anchor:
        counter[0] += 1
        name = "anc%d" % counter[0]
        defined.append(name)  # usable only after this node is complete (no recursive structures)
        return {"a": name, "n": out}
    return out


def to_python(node, tag_factory=None, anchors=None):
    """Expected Python value of a node; tag_factory(tag, form, args, kwargs) builds tagged values"""
    if anchors is None:
        anchors = {}
    if "s" in node:
        return node["s"]
    if "y" in node:
        return typed_value(node)
    if "r" in node:
        return anchors[node["r"]]
    if "a" in node:
        v = to_python(node["n"], tag_factory, anchors)
        anchors[node["a"]] = v
        return v
    if "l" in node:
        return [to_python(i, tag_factory, anchors) for i in node["l"]]
    if "m" in node:
        return {k: to_python(v, tag_factory, anchors) for k, v in node["m"]}
    if "t" in node:
        if node["n"] is None:
            return tag_factory(node["t"], "bare", [], {})
        v = to_python(node["n"], tag_factory, anchors)
        if isinstance(v, dict):
            return tag_factory(node["t"], "map", [], v)
        if isinstance(v, list):
            return tag_factory(node["t"], "seq", v, {})
        return tag_factory(node["t"], "bare", [], {})
    raise ValueError(node)
