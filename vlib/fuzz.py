"""Glue between the sharded runner and the atheris targets in engines/fuzz_targets.py"""
import hashlib
import json
import os
import shutil
import subprocess
import sys
import tempfile

from .core import Result, TestDef

HOME = os.environ.get("VERIF_HOME", os.path.dirname(os.path.dirname(os.path.abspath(__file__))))


def fuzz_testdef(which, runs_per_shard, dictionary=(), corpus=(), max_len=1024, nontrivial_token=b""):
    def enumerate_(shard, nshards):
        seed = int(os.environ.get("VERIF_SEED", "1") or "1")
        yield {"fuzz": which, "shard": shard, "runs": runs_per_shard, "seed": seed * 1000 + shard + 1, "empty_corpus": shard % 2 == 1}

    def run(spec) -> Result:
        res = Result()
        if "fuzz_input_hex" in spec:  # replay of a stored failing input, in-process, without atheris
            sys.path.insert(0, os.path.join(HOME, "engines"))
            from engines import fuzz_targets

            try:
                (fuzz_targets.c17_one if which == "c17" else fuzz_targets.c18_one)(bytes.fromhex(spec["fuzz_input_hex"]))
            except fuzz_targets.Violation as e:
                res.fail("fuzz-" + str(e).split(":")[0], str(e))
            res.nontrivial = True
            return res
        try:
            import atheris  # noqa
        except ImportError:
            res.cls("atheris-not-available")
            return res
        work = tempfile.mkdtemp(prefix=f"fuzz-{which}-")
        try:
            corpus_dir = os.path.join(work, "corpus")
            os.makedirs(corpus_dir)
            if not spec["empty_corpus"]:
                for i, c in enumerate(corpus):
                    with open(os.path.join(corpus_dir, f"seed{i}"), "wb") as f:
                        f.write(c.encode() if isinstance(c, str) else c)
            args = [f"-runs={spec['runs']}", f"-seed={spec['seed']}", f"-artifact_prefix={work}/", f"-max_len={max_len}", "-timeout=20", "-print_final_stats=1"]
            if dictionary:
                with open(os.path.join(work, "dict"), "w") as f:
                    for tok in dictionary:
                        f.write('"' + _esc(tok) + '"\n')
                args.append(f"-dict={work}/dict")
            stats = os.path.join(work, "stats.json")
            env = dict(os.environ)
            r = subprocess.run([sys.executable, os.path.join(HOME, "engines", "fuzz_targets.py"), which, stats] + args + [corpus_dir],
                               capture_output=True, text=True, env=env, cwd=HOME, timeout=6 * 3600)
            st = {"runs": 0, "interesting": 0}
            try:
                st = json.load(open(stats))
            except Exception:
                pass
            res.weight = max(1, st.get("runs", 0))
            hashes = set()
            for fn in os.listdir(corpus_dir):
                data = open(os.path.join(corpus_dir, fn), "rb").read()
                if not nontrivial_token or nontrivial_token in data:
                    hashes.add(hashlib.blake2b(data, digest_size=8).hexdigest())
            res.extra_hashes = hashes
            res.nontrivial = bool(hashes)
            res.cls("fuzz:" + ("empty-corpus" if spec["empty_corpus"] else "seeded-corpus"), "fuzz-corpus-units:%d" % len(os.listdir(corpus_dir)))
            crashes = [fn for fn in os.listdir(work) if fn.startswith(("crash-", "timeout-", "oom-"))]
            if crashes:
                data = open(os.path.join(work, crashes[0]), "rb").read()
                tail = (r.stderr or "")[-1500:]
                msg = [l for l in tail.splitlines() if "Violation" in l]
                spec["fuzz_input_hex"] = data.hex()
                res.fail("fuzz-" + (msg[-1].split("Violation:")[-1].strip().split(":")[0] if msg else crashes[0].split("-")[0]),
                         f"atheris found a failing input ({len(data)} bytes): {data[:300]!r}; {msg[-1] if msg else tail[-400:]}")
            elif r.returncode != 0:
                res.fail("fuzz-harness", f"fuzz target exited with {r.returncode}: {(r.stderr or '')[-600:]}")
        finally:
            shutil.rmtree(work, ignore_errors=True)
        return res

    return TestDef("atheris-" + which, run, enumerate=enumerate_, shards_thorough=16, shards_quick=16)


def _esc(tok):
    out = []
    for b in tok.encode():
        if 32 <= b < 127 and chr(b) not in '"\\':
            out.append(chr(b))
        else:
            out.append("\\x%02x" % b)
    return "".join(out)
