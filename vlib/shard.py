"""One shard of one property check: runs in its own process, writes a JSON fragment."""
import argparse
import collections
import hashlib
import importlib
import json
import os
import sys
import time
import traceback

from .core import HarnessError, Result, TestDef, canon, case_hash, jsonable, load_known_findings

HOME = os.environ.get("VERIF_HOME", os.path.dirname(os.path.dirname(os.path.abspath(__file__))))


def replay_root():
    """replays/ for /repo itself; a separate sub-directory per scratch copy (selftest runs in parallel)"""
    repo = os.path.realpath(os.environ.get("VERIF_REPO", "/repo"))
    if repo == "/repo":
        return os.path.join(HOME, "replays")
    return os.path.join(HOME, "replays", "_scratch", repo.strip("/").replace("/", "_"))


def derive_seed(seed: int, prop: str, test: str, shard: int, rnd: int = 0) -> int:
    h = hashlib.blake2b(f"{seed}|{prop}|{test}|{shard}|{rnd}".encode(), digest_size=8)
    return int.from_bytes(h.digest(), "big") >> 1


def default_match_known(entry, test, spec, viol) -> bool:
    if entry.get("clause") != viol.clause:
        return False
    if entry.get("test") not in (None, test):
        return False
    want = entry.get("match")
    if want:
        blob = canon({"spec": spec, "data": jsonable(viol.data)})
        for needle in want:
            if needle not in blob:
                return False
    return True


class Collector:
    def __init__(self, prop_id, shard, mod):
        self.prop_id = prop_id
        self.shard = shard
        self.mod = mod
        self.tests = {}
        self.failures = {}  # (test, clause) -> dict
        self.known_hits = collections.Counter()
        self.known = [
            e for e in load_known_findings(os.path.join(HOME, "known_findings.json"))
            if e.get("property") == prop_id and e.get("status") == "open"
        ]
        self.match_known = getattr(mod, "match_known", default_match_known)

    def t(self, name):
        return self.tests.setdefault(
            name,
            {
                "evaluations": 0,
                "nontrivial": set(),
                "classes": collections.Counter(),
                "samples": [],
                "excluded": 0,
                "exhaustive": False,
                "wall_s": 0.0,
            },
        )

    def record(self, name, spec, res: Result):
        t = self.t(name)
        t["evaluations"] += max(1, int(res.weight))
        if res.extra_hashes:
            t["nontrivial"].update(res.extra_hashes)
        for c in res.classes:
            t["classes"][c] += 1
        if res.nontrivial:
            h = case_hash(name, spec)
            if h not in t["nontrivial"]:
                t["nontrivial"].add(h)
                if len(t["samples"]) < 3:
                    s = jsonable(spec)
                    if len(canon(s)) < 3000:
                        t["samples"].append(s)

    def classify(self, name, spec, res: Result):
        """Split violations into (new, known)"""
        new, known = [], []
        for v in res.violations:
            hit = None
            for e in self.known:
                if self.match_known(e, name, spec, v):
                    hit = e
                    break
            if hit is not None:
                known.append((hit, v))
            else:
                new.append(v)
        return new, known

    def save_failure(self, name, spec, viol, info=None):
        key = (name, viol.clause)
        size = len(canon(spec))
        old = self.failures.get(key)
        if old is not None and old["size"] <= size:
            old["count"] += 1
            return
        d = os.path.join(replay_root(), self.prop_id)
        os.makedirs(d, exist_ok=True)
        safe = "".join(ch if ch.isalnum() else "_" for ch in viol.clause)[:60]
        path = os.path.join(d, f"{name}-{safe}-s{self.shard}.json")
        payload = {
            "property": self.prop_id,
            "test": name,
            "clause": viol.clause,
            "message": viol.message,
            "spec": jsonable(spec),
            "data": jsonable(viol.data),
            "info": jsonable(info),
        }
        with open(path, "w") as f:
            json.dump(payload, f, indent=1, sort_keys=True)
        self.failures[key] = {
            "test": name,
            "clause": viol.clause,
            "message": viol.message,
            "replay": path,
            "size": size,
            "count": (old["count"] + 1) if old else 1,
        }


class _Fail(Exception):
    pass


def run_hypothesis(td: TestDef, n_examples: int, seed: int, col: Collector, tier: str):
    import hypothesis
    from hypothesis import HealthCheck, Phase, given, settings

    excluded = set()
    state = {"after_fail": 0, "failed": False, "budget": td.shrink_budget}

    def body(spec):
        if state["failed"]:
            state["after_fail"] += 1
            if state["after_fail"] > state["budget"]:
                return  # budget used up: stop executing (ends the shrinker quickly)
        if state.get("harness") is not None:
            raise state["harness"]  # do not spend time shrinking a harness problem
        try:
            res = td.run(spec)
        except HarnessError as e:
            state["harness"] = e
            raise
        col.record(td.name, spec, res)
        if not res.violations:
            return
        new, known = col.classify(td.name, spec, res)
        for e, _v in known:
            col.known_hits[e.get("id", e.get("clause"))] += 1
        new = [v for v in new if v.clause not in excluded]
        if not new:
            col.t(td.name)["excluded"] += 1
            return
        v = new[0]
        col.save_failure(td.name, spec, v, res.info)
        state["failed"] = True
        if res.expensive:
            state["budget"] = min(state["budget"], 2)
            state["expensive"] = True
        raise _Fail(v.clause)

    phases = [Phase.generate, Phase.shrink]
    for rnd in range(4):
        state["after_fail"], state["failed"], state["budget"] = 0, False, td.shrink_budget
        before = set(col.failures)
        test = settings(
            max_examples=max(1, n_examples),
            database=None,
            deadline=None,
            derandomize=False,
            report_multiple_bugs=False,
            suppress_health_check=[HealthCheck.too_slow, HealthCheck.data_too_large,
                                   HealthCheck.large_base_example],
            phases=phases,
            verbosity=hypothesis.Verbosity.quiet,
        )(hypothesis.seed(derive_seed(seed, col.prop_id, td.name, col.shard, rnd))(given(td.strategy)(body)))
        try:
            test()
        except _Fail:
            pass
        except hypothesis.errors.FailedHealthCheck as e:
            raise HarnessError(f"health check failed in {td.name}: {e}")
        except HarnessError:
            raise
        except BaseException as e:  # Flaky, shrink-budget artefacts, ...
            if not state["failed"]:
                raise HarnessError(
                    f"unexpected {type(e).__name__} in {td.name}: {e}\n{traceback.format_exc()}"
                )
        new_keys = set(col.failures) - before
        if not state["failed"] or not new_keys or state.get("expensive"):
            break
        # continue the search behind the confirmed failure (bucketed by clause)
        for _t, clause in new_keys:
            excluded.add(clause)
        n_examples = max(1, n_examples // 2)


def run_enumeration(td: TestDef, shard: int, nshards: int, col: Collector):
    expensive_failures = 0
    complete = True
    for spec in td.enumerate(shard, nshards):
        if expensive_failures >= 2:
            complete = False  # each further failing case would cost its full bound again: the violation is established
            break
        res = td.run(spec)
        if res.violations and res.expensive:
            expensive_failures += 1
        col.record(td.name, spec, res)
        if res.violations:
            new, known = col.classify(td.name, spec, res)
            for e, _v in known:
                col.known_hits[e.get("id", e.get("clause"))] += 1
            for v in new:
                col.save_failure(td.name, spec, v, res.info)
    col.t(td.name)["exhaustive"] = bool(td.exhaustive) and complete


def run_regressions(mod, col: Collector, tests):
    d = os.path.join(HOME, "regressions", col.prop_id)
    if not os.path.isdir(d):
        return
    by_name = {t.name: t for t in tests}
    for fn in sorted(os.listdir(d)):
        if not fn.endswith(".json"):
            continue
        with open(os.path.join(d, fn)) as f:
            payload = json.load(f)
        td = by_name.get(payload.get("test"))
        if td is None:
            continue
        name = td.name
        res = td.run(payload["spec"])
        col.record(name, payload["spec"], res)
        col.t(name)["classes"]["regression-file"] += 1
        new, known = col.classify(name, payload["spec"], res)
        for e, _v in known:
            col.known_hits[e.get("id", e.get("clause"))] += 1
        for v in new:
            col.save_failure(name, payload["spec"], v, res.info)


def main(argv=None):
    ap = argparse.ArgumentParser()
    ap.add_argument("--prop", required=True)
    ap.add_argument("--tier", required=True)
    ap.add_argument("--seed", type=int, required=True)
    ap.add_argument("--shard", type=int, required=True)
    ap.add_argument("--nshards", type=int, required=True)
    ap.add_argument("--out", required=True)
    ap.add_argument("--only", default=None)
    a = ap.parse_args(argv)
    t0 = time.time()
    out = {"shard": a.shard, "ok": False}
    try:
        import cobald.interfaces

        repo = os.path.realpath(os.environ.get("VERIF_REPO", "/repo"))
        if not os.path.realpath(cobald.interfaces.__file__).startswith(repo + os.sep):
            raise HarnessError(f"cobald imported from {cobald.interfaces.__file__}, not from {repo}")
        mod = importlib.import_module("props." + a.prop.lower())
        tests = mod.tests(a.tier)
        col = Collector(a.prop, a.shard, mod)
        if a.shard == 0 and not a.only:
            run_regressions(mod, col, tests)
        for td in tests:
            if a.only and td.name != a.only:
                continue
            nsh = td.shards_quick if a.tier == "quick" else td.shards_thorough
            nsh = min(nsh, a.nshards)
            if a.shard >= nsh:
                continue
            t1 = time.time()
            if td.enumerate is not None:
                run_enumeration(td, a.shard, nsh, col)
            if td.strategy is not None:
                total = td.quick if a.tier == "quick" else td.thorough
                scale = float(os.environ.get("VERIF_SCALE", "1"))
                n = max(1, int(total * scale + nsh - 1) // nsh)
                run_hypothesis(td, n, a.seed, col, a.tier)
            col.t(td.name)["wall_s"] += time.time() - t1
        out.update(
            ok=True,
            tests={
                k: {
                    "evaluations": v["evaluations"],
                    "nontrivial": sorted(v["nontrivial"]),
                    "classes": dict(v["classes"]),
                    "samples": v["samples"],
                    "excluded": v["excluded"],
                    "exhaustive": v["exhaustive"],
                    "wall_s": round(v["wall_s"], 3),
                }
                for k, v in col.tests.items()
            },
            failures=list(col.failures.values()),
            known_hits=dict(col.known_hits),
        )
    except HarnessError as e:
        out["error"] = str(e)
    except BaseException as e:
        out["error"] = f"{type(e).__name__}: {e}\n{traceback.format_exc()}"
    out["wall_s"] = round(time.time() - t0, 3)
    with open(a.out, "w") as f:
        json.dump(out, f)
    try:  # os._exit skips atexit handlers: remove this process's scratch directory explicitly
        from engines import plugin_scratch

        plugin_scratch.cleanup_now()
    except Exception:  # noqa
        pass
    sys.stdout.flush()
    os._exit(0 if out["ok"] else 2)


if __name__ == "__main__":
    main()
