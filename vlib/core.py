"""Core data types shared by the runner and the property modules.

A property module (props/cNN.py) exposes

    ID, LEVEL, RULE, ASSUMPTIONS
    def tests(tier) -> list[TestDef]

A TestDef names one generated check: a Hypothesis strategy (or a finite enumeration)
producing *JSON-able case specifications*, and ``run(spec) -> Result`` which executes the
case against the real code and applies the oracle.  Because specs are plain JSON, the
same ``run`` is used for generation, shrinking, committed regressions and ``--replay``.
"""
import hashlib
import json
import math
from dataclasses import dataclass, field
from typing import Any, Callable, Dict, Iterable, List, Optional


class HarnessError(Exception):
    """The harness (not the code under test) misbehaved: exit 2, never a VIOLATION"""


@dataclass
class Viol:
    clause: str  # stable id of the oracle clause that failed (root-cause bucket)
    message: str
    data: Any = None

    def signature(self) -> str:
        return self.clause


@dataclass
class Result:
    violations: List[Viol] = field(default_factory=list)
    classes: List[str] = field(default_factory=list)  # histogram keys for this case
    nontrivial: bool = False
    info: Any = None  # optional observation to store with a replay file
    expensive: bool = False  # the failing run was very slow (e.g. a hang judged by its bound): shrink very little
    weight: int = 1  # number of executions this result stands for (a fuzzing campaign reports many)
    extra_hashes: Any = None  # hashes of further distinct non-trivial cases covered by this result

    def fail(self, clause: str, message: str, data: Any = None):
        self.violations.append(Viol(clause, message, data))

    def cls(self, *keys: str):
        self.classes.extend(keys)


@dataclass
class TestDef:
    name: str
    run: Callable[[Any], Result]
    strategy: Any = None  # hypothesis strategy of JSON-able specs
    enumerate: Optional[Callable[[int, int], Iterable[Any]]] = None  # (shard, nshards)
    quick: int = 1000  # total examples over all shards
    thorough: int = 20000
    shards_quick: int = 8
    shards_thorough: int = 16
    shrink_budget: int = 400  # executions allowed after the first failure
    exhaustive: bool = False  # enumeration covers a finite space completely
    slow: bool = False


def _default(o):
    if isinstance(o, (set, frozenset)):
        return sorted(o, key=repr)
    if isinstance(o, bytes):
        return {"__bytes__": o.hex()}
    if isinstance(o, tuple):
        return list(o)
    return repr(o)


def canon(obj: Any) -> str:
    return json.dumps(obj, sort_keys=True, default=_default, allow_nan=True)


def case_hash(test: str, spec: Any) -> str:
    return hashlib.blake2b((test + "|" + canon(spec)).encode(), digest_size=8).hexdigest()


def jsonable(obj: Any, depth: int = 0) -> Any:
    """Best-effort conversion for evidence / replay files"""
    if depth > 12:
        return repr(obj)
    if obj is None or isinstance(obj, (bool, int, str)):
        return obj
    if isinstance(obj, float):
        return obj  # json writes Infinity / NaN, and reads them back
    if isinstance(obj, dict):
        return {str(k): jsonable(v, depth + 1) for k, v in obj.items()}
    if isinstance(obj, (list, tuple, set, frozenset)):
        return [jsonable(v, depth + 1) for v in obj]
    return repr(obj)


def load_known_findings(path: str) -> List[Dict[str, Any]]:
    try:
        with open(path) as f:
            data = json.load(f)
    except FileNotFoundError:
        return []
    return data.get("findings", [])


def strict_json(obj: Any) -> Any:
    """Like jsonable, but non-finite floats become strings (for strictly parsed evidence files)"""
    if isinstance(obj, float) and (math.isnan(obj) or math.isinf(obj)):
        return repr(obj)
    if isinstance(obj, dict):
        return {str(k): strict_json(v) for k, v in obj.items()}
    if isinstance(obj, (list, tuple)):
        return [strict_json(v) for v in obj]
    return obj
