#!/bin/bash
# usage: tools/sweep.sh "<props>" "<seeds>" [tier]   - keeps replay files of alarms under sweep_keep/
cd "$(dirname "$0")/.."
for s in $2; do for p in $1; do
  t=$(date +%s); out=$(VERIF_SEED=$s ./check $p --tier ${3:-quick} --no-evidence 2>&1); rc=$?
  echo "seed$s $p rc=$rc $(( $(date +%s) - t ))s $(echo "$out" | grep -E "^violation|HARNESS" | cut -c1-400 | head -3 | tr '\n' ' ')"
  if [ $rc -ne 0 ]; then mkdir -p sweep_keep/$p-seed$s; cp -r replays/$p/. sweep_keep/$p-seed$s/ 2>/dev/null; fi
done; done
