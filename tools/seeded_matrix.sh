#!/bin/bash
# re-run every kept seeded change against its property's quick check (scratch worktree of /repo HEAD); prints a matrix
# usage: tools/seeded_matrix.sh [seed] [parallel jobs]
cd "$(dirname "$0")/.."
one() {
  d=$1; p=$(basename $(dirname $d)); n=$(basename $d)
  r=$(timeout 2400 python3 selftest/try_patch.py $d/patch.diff $p --tests --demo $d/demo.py --seeds $2 2>&1 | tr '\n' ' ' | cut -c1-420)
  echo "$p $n :: $r"
}
export -f one
ls -d seeded/*/*/ | xargs -P ${2:-1} -I{} bash -c "one {} ${1:-1}"
