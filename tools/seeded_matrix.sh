#!/bin/bash
# re-run every kept seeded change against its property's quick check (scratch worktree of /repo HEAD); prints a matrix
cd "$(dirname "$0")/.."
for d in seeded/*/*/; do
  p=$(basename $(dirname $d)); n=$(basename $d)
  r=$(timeout 2400 python3 selftest/try_patch.py $d/patch.diff $p --tests --demo $d/demo.py --seeds ${1:-1} 2>&1 | tr '\n' ' ' | cut -c1-420)
  echo "$p $n :: $r"
done
