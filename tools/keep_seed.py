#!/usr/bin/env python3
"""keep a confirmed seeded change: tools/keep_seed.py <PROP> <k> <name> "<needs>" "<detected-by>" """
import json, os, shutil, sys
prop, k, name, needs, detected = sys.argv[1:6]
src = f"/tmp/seed-{prop}"
dst = f"/verif/seeded/{prop}/{name}"
os.makedirs(dst, exist_ok=True)
shutil.copy(f"{src}/seed_{k}.patch", f"{dst}/patch.diff")
shutil.copy(f"{src}/demo_{k}.py", f"{dst}/demo.py")
json.dump({"property": prop, "breaks": prop, "needs_to_manifest": needs,
           "confirmed": "applied in a scratch worktree of /repo HEAD: pinned 85 tests pass, demo.py FAIL with the patch and PASS without (selftest/try_patch.py --tests --demo)",
           "ran": f"selftest/try_patch.py seeded/{prop}/{name}/patch.diff {prop} --seeds 1,2", "detected_by": detected,
           "origin": os.environ.get("SEED_ORIGIN", "independent sub-agent given only the property text and a scratch worktree")}, open(f"{dst}/meta.json", "w"), indent=1)
print("kept", dst)
