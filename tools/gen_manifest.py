#!/usr/bin/env python3
"""Regenerates MANIFEST.json from the table below (keeps it schema-valid at all times)."""
import json, os, sys
HOME = os.path.dirname(os.path.dirname(os.path.abspath(__file__)))
sys.path.insert(0, HOME)

CHECKS = {
 # id: (level, technique, text, note, design_ref)
 "C06": ("exploration",
         "Hypothesis histories vs exact-rational reference model + metamorphic increments",
         "Generated parameter sets and write/read/supply/outside-change histories, values constructed on and next to every active limit; each write and read is judged against the statement's clauses in exact Fraction arithmetic and a reference of the documented priority order. Search, not proof: sampled histories up to 30 ops.",
         "Trusts Python's Fraction/float conversions; inputs are ints/dyadics (exact float arithmetic) plus arbitrary floats <= 1e12; supply finite >= 0.",
         "3/C06"),
}

def main():
    props = [json.loads(l) for l in open(os.path.join(HOME, "properties.jsonl"))]
    checks, na = [], []
    for p in props:
        pid = p["id"]
        if pid in CHECKS and os.path.exists(os.path.join(HOME, "props", pid.lower() + ".py")):
            level, tech, text, note, ref = CHECKS[pid]
            checks.append({
                "property_id": pid,
                "quick_cmd": f"./check {pid} --tier quick",
                "thorough_cmd": f"./check {pid} --tier thorough",
                "evidence_file": f"evidence/{pid}.json",
                "replay_cmd_template": f"./check {pid} --replay {{path}}",
                "engine": "hypothesis-sharded",
                "level_claimed": {"category": level, "text": text, "design_ref": "DESIGN.md section " + ref},
                "level_note": note,
                "technique": tech,
            })
        else:
            na.append({"property_id": pid, "reason": "no check registered in this revision yet (planned, see DESIGN.md section 3)"})
    m = {
        "version": 1,
        "setup_cmd": "./setup.sh",
        "hooks": {
            "guard": "COBALD_VERIF",
            "enable": "no source hooks are needed: checks import /repo/src directly (PYTHONPATH) and drive only public API; ./check exports COBALD_VERIF=1 for uniformity",
            "baseline_off_cmd": "cd /repo && /venv/bin/python -m pytest -ra -q -p no:cacheprovider --timeout=900",
            "source_commits": [],
            "add_only": True,
        },
        "engines": [
            {"name": "hypothesis-sharded", "path": "vlib/", "serves_properties": [c["property_id"] for c in checks],
             "kind_free_text": "property-based testing: Hypothesis strategies -> JSON case specs -> run against /repo/src -> explicit oracle; N seeded shards in parallel; collect-then-shrink; replay files"},
        ],
        "checks": checks,
        "not_applicable": na,
        "notes": "Every check: ./check <ID> --tier quick|thorough; exit 0 held / 1 VIOLATION / 2 harness error. VERIF_SEED seeds all generation. Fixed defects are listed in known_findings.json (fixed entries suppress nothing).",
    }
    with open(os.path.join(HOME, "MANIFEST.json"), "w") as f:
        json.dump(m, f, indent=1)
    print("MANIFEST.json:", len(checks), "checks,", len(na), "not applicable")

if __name__ == "__main__":
    main()
