#!/usr/bin/env python3
"""Regenerates MANIFEST.json from the table below (keeps it schema-valid at all times)."""
import json, os, sys
HOME = os.path.dirname(os.path.dirname(os.path.abspath(__file__)))
sys.path.insert(0, HOME)

CHECKS = {
 # id: (level, technique, text, note, design_ref)
 "C06": ("exploration",
         "Hypothesis histories vs exact-rational reference model + metamorphic increments",
         "Generated parameter sets and write/read/supply/outside-change histories, values constructed on and next to every active limit; each write and read is judged against the statement's clauses in exact Fraction arithmetic and a reference of the documented priority order. Search, not proof: sampled histories up to 30 ops.",
         "Trusts Python's Fraction/float conversions; inputs are ints/dyadics (exact float arithmetic) plus arbitrary floats <= 1e12; supply finite >= 0.",
         "3/C06"),
 "C04": ("exploration",
         "Hypothesis program generation (signatures, curry splits, groupings) vs hand-nested construction + call-binding model; exhaustive Catalan groupings",
         "Generated chains with exec-built classes of generated signatures; classes constructed by __init__ or by a custom __new__, parameter names incl. ctor/cls, pool-valued ordinary arguments, optionally declared @service; every grouping/split must equal hand nesting (types, target identity, arguments, construction log); each template call is judged against an independent model of Python call binding (itself validated against real calls). All Catalan groupings up to 6 operators enumerated; the rest sampled.",
         "Trusts Python's own call semantics as ground truth for the binding model (cross-checked on every complete argument list); argument values are ints and pool instances.",
         "3/C04"),
 "C07": ("exploration",
         "Hypothesis histories vs recomputation from the children (fsum/Fraction)",
         "Generated child sets (zero/equal/single/log-uniform weights) and histories of writes, child state changes and membership changes; conservation, proportionality, ranges, exact read-back and documented fallbacks checked after every operation.",
         "Magnitudes restricted to {0} and [1e-6, 1e9]; tolerances 1e-9 relative as stated in the evidence.",
         "3/C07"),
 "C08": ("exploration",
         "Hypothesis step sequences with on-threshold values; Stepwise under trio virtual clock; call-log oracle",
         "Generated parameters, rule/slave tables in random declaration order and step sequences with states on, one ulp beside and away from every threshold; direction/amount clauses in exact arithmetic, exactly-one-rule / exactly-one-controller from recorded call logs.",
         "Stepwise is observed through real run() iterations under trio.testing.MockClock; one ulp tolerance on Linear amounts.",
         "3/C08"),
 "C14": ("exploration",
         "Hypothesis-generated plugin sets through real entry-point discovery; call-log + ordering oracle",
         "Generated plugin sets with acyclic before/after graphs (incl. absent names), required flags and configuration mappings, loaded through a scratch entry-point group with the real load_section_plugins and load_configuration; validation-before-digest, exactly-once, identity of content, kept results and constraint order are checked.",
         "Constraint graphs acyclic by construction; entrypoints' directory scan is the real discovery path.",
         "3/C14"),
 "C16": ("exploration",
         "Hypothesis stacks x histories; capturing log handler snapshots target state at emission",
         "Generated decorator stacks (depth 0-6) and histories; pass-through of supply/utilisation/allocation at every layer, identity pass-through of demand for plain/Logger stacks, one record per write with level/name (incl. the root logger)/args/state-before-write, template validation.",
         "Buffer.run is not driven here (C09); Logger default name follows the implementation (target's class qualname).",
         "3/C16"),
 "C17": ("exploration",
         "Hypothesis records decoded by an independent line-protocol reference parser / json.loads (round trip)",
         "Generated records over an alphabet with every protocol-special character; output decoded by an independently written InfluxDB 1.x line-protocol parser and compared field by field (names, tags, field kinds and values, timestamp in integer arithmetic); every record is formatted a second time and as JSON afterwards (several handlers) and must give the same account; JSON compared with the documented merge order.",
         "The reference parser implements the documented escaping rules of line protocol 1.x; inputs the protocol cannot express are excluded (listed in evidence).",
         "3/C17"),
 "C19": ("exploration",
         "Hypothesis trees vs independent recursive evaluator; scratch package of recording factories",
         "Generated trees with __type__ nodes and failing nodes at arbitrary depth (factories incl. nested attributes, a wraps-wrapper with a narrower reported signature, positional arguments handed over as a one-shot iterator), evaluated by Translator and PipelineTranslator and by an independent post-order evaluator; structure, call log (order, arguments, exactly once), error type, error location tokens and the call-log prefix before the failure must agree.",
         "Keys are identifier-like; the location string is tokenised into keys and indices rather than compared textually.",
         "3/C19"),
 "C09": ("exploration",
         "Hypothesis timed histories against real run() coroutines under trio's virtual clock (MockClock autojump)",
         "Every shipped periodic service runs its real run() under a virtual clock for 0-60 periods with generated intervals and environment actions placed before/on/after boundaries; oracle over timestamps and values of every write reaching the recording pool (step grid, Linear rate bound for all instant pairs, Buffer boundary semantics on the single ordered event sequence, FactoryPool adjustment grid incl. children with supply and supply == demand at a boundary) and exceptions leaving run().",
         "Relative time tolerance 1e-9 of the run length; actions nominally on a boundary may fall on either side; controller pools are kept in states where every step must write.",
         "3/C09"),
 "C15": ("exploration",
         "Hypothesis histories + exhaustive depth-4 enumeration against real FactoryPool.run() under virtual clock; invariant oracle",
         "Generated histories of demand writes, child state changes (incl. total supply made exactly equal to the request), self-disabling children and adjustment cycles; after every adjustment the statement's invariants are evaluated from the children; thorough tier enumerates all histories up to depth 4 over a small alphabet exhaustively.",
         "Harness keeps strong references to every child; a child counts as released once the pool wrote demand 0 to it; demands are ints/dyadics.",
         "3/C15"),
 "C05": ("exploration",
         "Hypothesis-generated YAML documents (own emitter) loaded with the real load(); differential against the same chain built with >>",
         "Generated documents mixing !Tag (mapping/sequence/bare) and __type__ forms with nested lazy/eager tags, all native YAML value types (binary, dates, sets, omap, pairs), __type__ names nested below classes, anchors/aliases, optional extra and logging sections and an injected constructor failure; returned pipeline shape, target identity links, construction log (once each, last to first, configured arguments) and equality with the Python >> chain; failures must surface and nothing before the failing position may be constructed.",
         "Fixture classes are discovered through a scratch *.dist-info/entry_points.txt on sys.path (the real discovery path); emitter validated per case against a neutral PyYAML loader.",
         "3/C05"),
 "C18": ("exploration",
         "Hypothesis-generated hostile YAML documents with side-effect canaries (import marker file, recording callables)",
         "Documents valid except for one python/* tag (all PyYAML kinds, three spellings) or unregistered !tag at generated positions (root node, sections, pipeline, nested in lazy/eager tag arguments, mapping keys, values merged with `<<` (also nested), !!omap/!!pairs items, `=` values, logging section, behind aliases), with or without a harmless anchored node and its alias elsewhere in the document; load() must raise, the canary module must not be imported (sys.modules + marker file) and no canary callable may be called or instantiated.",
         "Calls of real os/subprocess targets are not observed, only rejection; canaries make import/call/instantiation observable. Thorough tier adds an atheris byte-level fuzz target when atheris is installable.",
         "3/C18"),
 "C01": ("fault_enumeration",
         "Hypothesis scenario generation + exhaustive fault product against the real runtime in a forked worker; identity-based cause oracle",
         "Failing payloads of every flavour x ~57 failure kinds (Exception subclasses, BaseExceptions, all falsy and truthy return values, KeyboardInterrupt raised or as real SIGINT) x 6 registration modes x both runners are enumerated exhaustively without bystanders, and sampled with bystanders, several simultaneous failures, synchronously failing plain callables, cancellation-absorbing bystanders, delays, accept delays and switch intervals; a further test runs the same runner instance twice. The blocking call must end within 20 s, must not return normally without a KeyboardInterrupt and must raise RuntimeError caused (through exception groups, by identity) only by injected failures.",
         "Thread interleavings are sampled, not enumerated (a fifth of the scenarios run under harness-owned line-level delays inside the runner modules); bounded liveness (20 s) stands for 'never keeps running'; accept()/run() executes in the main thread of a forked worker per scenario.",
         "3/C01"),
 "C02": ("fault_enumeration",
         "Hypothesis termination scenarios in a forked worker; invariant over the timestamped per-payload event log vs the instant the call ended",
         "A finite core (every trigger x flavour/state/cleanup of one running coroutine payload x runner, 570 scenarios) is enumerated completely in both tiers; beyond it every termination trigger (failure per flavour and kind, raised KeyboardInterrupt, real SIGINT, shutdown()/stop() from outside or requested by a payload of any flavour) at generated instants against generated sets of running coroutine payloads (sleeping, spinning, beating, just adopted, adopted from payloads, adopted during shutdown; asyncio payloads that absorb their first cancellations) with synchronous and shielded cleanup and blocked threads, compound triggers (shutdown followed by a failure inside the cleanup window) and payloads adopted by the failing payload in its last step; each started coroutine payload must log its framework's cancellation and cleanup-done before T_end and nothing after it.",
         "Sampled interleavings and trigger instants (a fifth of the scenarios under line-level delays inside the runner modules); timestamps are monotonic_ns taken inside the payloads, T_end after the call returned; 20 s liveness bound.",
         "3/C02"),
 "C03": ("exploration",
         "Hypothesis submission histories (steady and shutdown-race phases) in a forked worker; exactly-once / argument / context / adopt-result oracle",
         "Generated numbers of payloads and services per flavour with generated arguments, (callables of several kinds; keyword names an API might claim; service classes that refine a service class of another flavour or have value semantics) submitted before start, at start, during the first polling cycles and later by concurrent outside threads, from payloads of every flavour and from their cancellation cleanup; counted at quiescence plus five polling periods; a second phase races shutdown() against adopt storms while payloads with long (shielded) cleanup keep the runtime in its cleanup window; services that finish and are dropped while new ones are created, 25-70 payloads of one flavour, and line-level schedule perturbation (settrace delays) inside the runner modules for concurrent submitters.",
         "Sampled interleavings, partly under line-level delays inside the runner and service modules; 'none is lost' judged within 20 s; adopt calls after shutdown began are judged only inside observed cleanup intervals.",
         "3/C03"),
 "C10": ("exploration",
         "Hypothesis execute/adopt sequences in a forked worker; identity of result/exception evaluated in the worker, liveness of bystanders afterwards",
         "A finite core (payload flavour x calling context x each of ~50 outcomes, one execute per scenario, 520 scenarios) is enumerated completely in both tiers; beyond it 1-15 execute calls per scenario over flavour x caller context x outcome x arguments x kind of callable x keyword names (incl. self, payload, timeout), two concurrent outside callers, interleaved with adopts, callers acting the moment they start; exactly-once start with exact arguments in the runtime's own loop / trio run, identical result or exception object for the caller, bystanders keep beating, accept() ends only on shutdown().",
         "One blocking cross-loop direction per scenario; exceptions that Python's future plumbing converts are excluded; executed payloads are short.",
         "3/C10"),
 "C11": ("exploration",
         "Hypothesis mixes of adopted/service/executed coroutine payloads with non-atomic overlap detectors; thread/loop/run identity oracle",
         "2-10 coroutine payloads per flavour from every submission path run synchronous sections around a GIL-releasing sleep with a per-flavour enter/exit counter; all events of a flavour must carry one thread and one loop/run identity, counters never differ from 1, heartbeats progress (relative to an idle control window, reproduced three times) while thread payloads block - also across a shutdown with threads still blocked; adoption from the middle of a checkpoint-free section; adopters with private event loops, 25-40 simultaneous blockers, executes around the moment of shutdown.",
         "Overlap absence is sampled; identity checks are deterministic for the usual breakages (private loop / trio.run per execute).",
         "3/C11"),
 "C12": ("fault_enumeration",
         "Hypothesis multi-episode lifecycle histories in one forked process; outcome/duration oracle per accept, shutdown and concurrent accept",
         "1-5 episodes with fresh runners, end modes shutdown (outside thread / thread payload, generated offsets incl. immediately), real SIGINT, an interrupt raised by a payload, failing payload, shutdown racing a failure; concurrent accept attempts on the same or another instance; populations none / coroutines with cleanup / blocked threads / concurrent adopters; the next episode must report running after every kind of exit; simultaneous accepts of two runners under line-level schedule perturbation inside the guard module.",
         "shutdown/SIGINT are issued after the runner reported running; 20 s liveness bound; a finished runner instance is not reused.",
         "3/C12"),
 "C13": ("fault_enumeration",
         "Hypothesis-generated configurations and fault kinds against real `python -m cobald.daemon` child processes with instrumented fixtures",
         "YAML and Python configurations with 0-4 services of all flavours, configuration files named like modules the daemon needs, scenario kinds valid+SIGINT, valid+failing service (raise, return, BaseException, sys.exit), and twelve kinds of invalid configuration; oracle from exit status, log file and an event file (constructed inside the runtime's running loop, started exactly once, beating until the signal, cancelled, exit 0; non-zero exit plus an error on the log otherwise).",
         "Tens to hundreds of process runs per check, not thousands; a third of the valid runs perturb the daemon's own schedule (line-level delays in service.py installed through a harness sitecustomize); signals only after the daemon is observably up; 20 s bounds.",
         "3/C13"),
}

def main():
    props = [json.loads(l) for l in open(os.path.join(HOME, "properties.jsonl"))]
    checks, na = [], []
    for p in props:
        pid = p["id"]
        if pid in CHECKS and os.path.exists(os.path.join(HOME, "props", pid.lower() + ".py")):
            level, tech, text, note, ref = CHECKS[pid]
            checks.append({
                "property_id": pid,
                "quick_cmd": f"./check {pid} --tier quick",
                "thorough_cmd": f"./check {pid} --tier thorough",
                "evidence_file": f"evidence/{pid}.json",
                "replay_cmd_template": f"./check {pid} --replay {{path}}",
                "engine": "hypothesis-sharded",
                "level_claimed": {"category": level, "text": text, "design_ref": "DESIGN.md section " + ref},
                "level_note": note,
                "technique": tech,
            })
        else:
            na.append({"property_id": pid, "reason": "no check registered in this revision yet (planned, see DESIGN.md section 3)"})
    m = {
        "version": 1,
        "setup_cmd": "./setup.sh",
        "hooks": {
            "guard": "COBALD_VERIF",
            "enable": "no source hooks are needed: checks import /repo/src directly (PYTHONPATH) and drive only public API; ./check exports COBALD_VERIF=1 for uniformity",
            "baseline_off_cmd": "cd /repo && /venv/bin/python -m pytest -ra -q -p no:cacheprovider --timeout=900",
            "source_commits": [],
            "add_only": True,
        },
        "engines": [
            {"name": "hypothesis-sharded", "path": "vlib/", "serves_properties": [c["property_id"] for c in checks],
             "kind_free_text": "property-based testing: Hypothesis strategies -> JSON case specs -> run against /repo/src -> explicit oracle; N seeded shards in parallel; collect-then-shrink; replay files"},
        ],
        "checks": checks,
        "not_applicable": na,
        "notes": "Every check: ./check <ID> --tier quick|thorough; exit 0 held / 1 VIOLATION / 2 harness error. VERIF_SEED seeds all generation. Fixed defects are listed in known_findings.json (fixed entries suppress nothing).",
    }
    with open(os.path.join(HOME, "MANIFEST.json"), "w") as f:
        json.dump(m, f, indent=1)
    print("MANIFEST.json:", len(checks), "checks,", len(na), "not applicable")

if __name__ == "__main__":
    main()
