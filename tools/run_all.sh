#!/bin/bash
# run every registered quick check once (VERIF_SEED from env), print one line each
cd "$(dirname "$0")/.."
for p in C01 C02 C03 C04 C05 C06 C07 C08 C09 C10 C11 C12 C13 C14 C15 C16 C17 C18 C19; do
  s=$(date +%s)
  out=$(./check $p --tier ${1:-quick} ${2:+--no-evidence} 2>&1); rc=$?
  echo "$p rc=$rc $(( $(date +%s) - s ))s $(echo "$out" | grep -E "VIOLATION|HARNESS|KNOWN" | head -3 | tr '\n' ' ')"
done
