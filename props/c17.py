"""C17 - Monitoring output is well-formed and lossless"""
import json
import logging
import math
from fractions import Fraction

from hypothesis import strategies as st

from cobald.monitor.format_json import JsonFormatter, RECORD_ATTRIBUTES
from cobald.monitor.format_line import LineProtocolFormatter

from vlib.core import Result, TestDef
from vlib.fuzz import fuzz_testdef
from vlib.lineproto import LineProtocolError, parse_line

ID = "C17"
LEVEL = "exploration"
RULE = (
    "Hypothesis-generated monitor records: measurement names, tag/field keys and string values over an alphabet holding every "
    "character special to the line protocol (space , = \" ' \\ # %) plus non-ASCII; int (|n|<=2^53) / finite float / bool fields; "
    "tags configured as None / whitelist / defaults mapping with str and non-str values, record values overriding defaults; "
    "integer resolutions or None; record times in [0, 4e9]. The formatter output is decoded by an independent reference parser "
    "of the InfluxDB 1.x line protocol (vlib/lineproto.py) and compared with the record; JSON output is decoded by json.loads and "
    "compared with {defaults, time, message, data}. Non-trivial = at least one protocol-special character in a name, key or value "
    "(line) / a payload key overriding a default, time or message (JSON); distinct = canonical JSON of the case."
)
ASSUMPTIONS = [
    "excluded as inexpressible: line breaks, a trailing backslash in any component, '%' in the measurement name, keys colliding "
    "with LogRecord attribute names, empty names/keys/tag values, a leading '#' in the name, records without fields, None values",
    "unsuffixed integers are floats to a line-protocol reader (cobald documents that rendering); numbers are compared by value",
]

SPECIAL = " ,=\"'\\"
# other whitespace than U+0020 is ordinary text in the line protocol (only line breaks cannot be expressed)
ALPHA = "abXY09_-./:#%" + SPECIAL + SPECIAL + "äλ✓" + "\u00a0\u3000\t"
NAME_ALPHA = ALPHA.replace("%", "")


def text(alpha=ALPHA, min_size=1, max_size=10):
    def fix(s):
        return s + "z" if s.endswith("\\") else s
    return st.text(alphabet=alpha, min_size=min_size, max_size=max_size).map(fix)


def key():
    # (a few fixed keys recur across cases of one process: state carried between records shows up)
    return st.one_of(text(), text(), st.sampled_from(["state", "rank", "host", "a b", "k=1"])).map(lambda k: "k_" + k if k in RECORD_ATTRIBUTES else k)


def name():
    return text(NAME_ALPHA).map(lambda s: "m" + s if s.startswith("#") else s)


number = st.one_of(st.integers(-2**53, 2**53), st.integers(-100, 100), st.floats(allow_nan=False, allow_infinity=False),
                   st.floats(-1e6, 1e6), st.booleans())
field_value = st.one_of(text(min_size=0), number)
tag_value = st.one_of(text(), text(), st.integers(-1000, 1000), st.floats(-1e6, 1e6), st.booleans(),
                      st.sampled_from([0, 1, True, False, 0.0, 1.0, -0.0, -1, "0", "1", "True"]), st.sampled_from([0, 1, True, False, 0.0, 1.0]))


@st.composite
def line_case(draw):
    keys = draw(st.lists(key(), min_size=1, max_size=8, unique=True))
    kind = draw(st.sampled_from(["none", "set", "dict", "dict"]))
    n_tag = 0 if kind == "none" else draw(st.integers(0, len(keys) - 1))
    tag_keys, field_keys = keys[:n_tag], keys[n_tag:]
    defaults = {}
    args = {}
    if kind == "dict":
        for k in tag_keys:
            defaults[k] = draw(tag_value)
            if draw(st.booleans()):
                args[k] = draw(tag_value)
    else:
        for k in tag_keys:
            if draw(st.booleans()):
                args[k] = draw(tag_value)
    for k in field_keys:
        args[k] = draw(field_value)
    earlier = []
    for _ in range(draw(st.sampled_from([0, 0, 1, 2]))):
        a = {}
        for k in tag_keys:
            if draw(st.booleans()):
                a[k] = draw(tag_value)
        for k in field_keys:
            if draw(st.booleans()):
                a[k] = draw(field_value)
        if not any(k in a for k in field_keys):
            a[field_keys[0]] = draw(field_value)
        earlier.append(a)
    return {
        "earlier": earlier,
        "name": draw(name()),
        "kind": kind,
        "tag_keys": tag_keys,
        "defaults": defaults,
        "args": args,
        "res": draw(st.one_of(st.none(), st.integers(1, 10**4), st.sampled_from([1, 10, 60, 3600]))),
        # record times: mostly after the epoch, some before it (rounding *down* matters there)
        "created": draw(st.one_of(st.floats(0, 4e9), st.integers(0, 4 * 10**9).map(float), st.floats(-4e9, 0), st.integers(-10**6, 0).map(float))),
    }


def make_record(msg, args, created):
    logger = logging.Logger("verif.c17")
    rec = logger.makeRecord("verif.c17", logging.WARNING, __file__, 1, msg, (args,), None)
    rec.created = created
    rec.msecs = int((created - int(created)) * 1000) + 0.0
    return rec


def kind_of(v):
    if isinstance(v, bool):
        return "bool"
    if isinstance(v, str):
        return "string"
    return "number"


def run_line(spec) -> Result:
    res = Result()
    if spec["kind"] == "none":
        tags = None
    elif spec["kind"] == "set":
        tags = set(spec["tag_keys"])
    else:
        tags = dict(spec["defaults"])
    try:
        fmt = LineProtocolFormatter(tags=tags, resolution=spec["res"])
    except Exception as e:
        res.fail("format-raises", f"{type(e).__name__}: {e} for {spec}")
        return res
    # one formatter instance serves many records: earlier records must not influence later ones
    for i, args in enumerate(list(spec.get("earlier", [])) + [spec["args"]]):
        check_record(res, fmt, spec, args, f"record {i}")
        if res.violations:
            return res
    texts = [spec["name"]] + list(spec["args"]) + list(spec["defaults"]) + [v for v in list(spec["args"].values()) + list(spec["defaults"].values()) if isinstance(v, str)]
    specials = {c for s in texts for c in s if c in SPECIAL or ord(c) > 127}
    for c in specials:
        res.cls("special:" + (c if ord(c) < 128 else "non-ascii"))
    res.cls("tags:" + spec["kind"], "res:" + ("none" if spec["res"] is None else "int"), "records:%d" % (1 + len(spec.get("earlier", []))))
    for v in spec["args"].values():
        res.cls("field:" + kind_of(v))
    res.nontrivial = bool(specials)
    return res


def check_record(res, fmt, spec, args, tag):
    payload = dict(args)
    rec = make_record(spec["name"], payload, spec["created"])
    try:
        out = fmt.format(rec)
        # a record passes through every handler of the monitor logger: formatting it again - by the same formatter or as
        # JSON - must give the same account of the record
        again = fmt.format(rec)
        as_json = JsonFormatter().format(rec)
    except Exception as e:
        res.fail("format-raises", f"{tag}: {type(e).__name__}: {e} for {spec}")
        return
    if again != out:
        res.fail("second-formatting-differs", f"{tag}: the same record formatted twice: {out!r} then {again!r}")
    try:
        decoded = json.loads(as_json)
        missing = {k: v for k, v in args.items() if k not in decoded or decoded[k] != json.loads(json.dumps(v))}
        if missing or decoded.get("message") != spec["name"]:
            res.fail("json-after-line", f"{tag}: JSON formatting of the record after line formatting lacks {missing!r} (message {decoded.get('message')!r}): {as_json!r}")
    except ValueError as e:
        res.fail("json-unparseable", f"{tag}: {e}: {as_json!r}")
    whitelist = set(spec["tag_keys"])
    want_tags = {k: str(v) for k, v in spec["defaults"].items()}
    want_tags.update({k: str(v) for k, v in args.items() if k in whitelist})
    want_fields = {k: v for k, v in args.items() if k not in whitelist}
    if not isinstance(out, str) or not out.endswith("\n") or "\n" in out[:-1]:
        res.fail("not-a-single-line", f"{tag}: output {out!r}")
        return
    try:
        m, t, f, ts = parse_line(out)
    except LineProtocolError as e:
        res.fail("unparseable", f"{tag}: {e}: output {out!r} for {spec}")
        return
    if m != spec["name"]:
        res.fail("measurement", f"decoded measurement {m!r}, reported {spec['name']!r}; output {out!r}")
    if t != want_tags:
        res.fail("tags", f"decoded tags {t!r}, expected {want_tags!r}; output {out!r}")
    if set(f) != set(want_fields):
        res.fail("field-keys", f"decoded field keys {sorted(f)!r}, expected {sorted(want_fields)!r}; output {out!r}")
    else:
        for k, v in want_fields.items():
            kind, got = f[k]
            wk = kind_of(v)
            gk = "number" if kind in ("int", "float") else kind
            if gk != wk:
                res.fail("field-type", f"field {k!r}={v!r} decoded as {kind} {got!r}; output {out!r}")
            elif wk == "number":
                if float(got) != float(v) and not (isinstance(v, int) and got == v):
                    res.fail("field-number", f"field {k!r}={v!r} decoded as {got!r}; output {out!r}")
            elif got != v:
                res.fail("field-value", f"field {k!r}={v!r} decoded as {got!r}; output {out!r}")
    if spec["res"] is None:
        if ts is not None:
            res.fail("timestamp-unexpected", f"resolution None but timestamp {ts}")
    else:
        want_ts = int(Fraction(spec["created"]) // spec["res"]) * spec["res"] * 10**9
        if ts != want_ts:
            res.fail("timestamp", f"created={spec['created']!r} resolution={spec['res']}: timestamp {ts}, expected {want_ts}")


# ------------------------------------------------------------------ JSON
json_scalar = st.one_of(st.none(), st.booleans(), st.integers(-2**53, 2**53), st.floats(allow_nan=False, allow_infinity=False), text(min_size=0))
json_value = st.recursive(json_scalar, lambda inner: st.one_of(st.lists(inner, max_size=3), st.dictionaries(text(max_size=4), inner, max_size=3)), max_leaves=6)
json_key = st.one_of(text(max_size=6), st.sampled_from(["time", "message", "latitude", "a"]))


@st.composite
def json_case(draw):
    return {
        "defaults": draw(st.one_of(st.none(), st.dictionaries(json_key, json_value, max_size=4))),
        "datefmt": draw(st.sampled_from([None, None, "", "%Y-%m-%d", "%H:%M:%S", "%Y-%m-%dT%H:%M:%S"])),
        "msg": draw(text(NAME_ALPHA, min_size=0)),
        "data": draw(st.dictionaries(json_key, json_value, max_size=5)),
        "earlier": draw(st.one_of(st.none(), st.dictionaries(json_key, json_value, max_size=4))),
        "created": draw(st.floats(0, 4e9)),
    }


def run_json(spec) -> Result:
    res = Result()
    try:
        fmt = JsonFormatter(fmt=spec["defaults"], datefmt=spec["datefmt"])
        if spec.get("earlier") is not None:  # the same formatter instance served another record before
            fmt.format(make_record("earlier", dict(spec["earlier"]), spec["created"]))
        payload = dict(spec["data"])
        rec = make_record(spec["msg"], payload, spec["created"])
        out = fmt.format(rec)
        again = fmt.format(rec)
    except Exception as e:
        res.fail("format-raises", f"{type(e).__name__}: {e} for {spec}")
        return res
    if again != out:
        res.fail("second-formatting-differs", f"the same record formatted twice: {out!r} then {again!r}")
    want = dict(spec["defaults"] or {})
    if spec["datefmt"] is None or spec["datefmt"]:
        want["time"] = logging.Formatter(datefmt=spec["datefmt"]).formatTime(make_record(spec["msg"], {}, spec["created"]), spec["datefmt"])
    want["message"] = spec["msg"]
    want.update(spec["data"])
    want = json.loads(json.dumps(want))
    if not isinstance(out, str) or "\n" in out:
        res.fail("json-not-single-line", f"output {out!r}")
        return res
    try:
        got = json.loads(out)
    except ValueError as e:
        res.fail("json-unparseable", f"{e}: {out!r}")
        return res
    if not isinstance(got, dict) or got != want:
        res.fail("json-content", f"decoded {got!r}, expected {want!r} for {spec}")
    over = set(spec["data"]) & (set(spec["defaults"] or {}) | {"time", "message"})
    res.cls("datefmt:" + repr(spec["datefmt"]), "override:" + str(bool(over)))
    res.nontrivial = bool(over) or bool(spec["defaults"])
    return res


def tests(tier):
    from vlib import lineproto
    from vlib.core import HarnessError

    try:
        lineproto.selfcheck()  # the oracle itself is validated against the documented examples
    except AssertionError as e:
        raise HarnessError(str(e))
    return [
        TestDef("line", run_line, strategy=line_case(), quick=20000, thorough=600000),
        TestDef("json", run_json, strategy=json_case(), quick=6000, thorough=200000),
    ] + ([fuzz_testdef("c17", 150000, max_len=256)] if tier == "thorough" else [])
