"""C11 - Coroutine payloads of one flavour never run in parallel"""
from hypothesis import strategies as st

from engines.runtime_worker import run_scenario
from engines.scenarios import ALL, COROUTINE, events, switchinterval
from vlib.core import HarnessError, Result, TestDef

ID = "C11"
LEVEL = "exploration"
RULE = (
    "Hypothesis-generated scenarios run by the runtime interpreter in a forked process: per coroutine flavour 2-10 payloads that are "
    "adopted (before start, by outside threads, from payloads of every flavour), run methods of services, or executed (from outside "
    "threads, thread payloads and the other coroutine flavour); their programs consist of synchronous *sections* - a non-atomic "
    "enter/exit counter per flavour around a GIL-releasing time.sleep - separated by checkpoints; one 5 ms heartbeat payload per "
    "flavour; 0-4 thread payloads that block for 0.2-0.5 s or burn CPU; generated switch interval. Oracle: every event of every asyncio "
    "payload carries one thread id and one loop identity, every trio event one thread id and one trio token, the two threads differ "
    "from each other and from all thread payloads' threads; no section ever saw its flavour's counter different from 1; . Non-trivial = an "
    "executed and an adopted payload of the same flavour with sections and overlapping lifetimes; distinct = canonical JSON."
)
ASSUMPTIONS = [
    "absence of overlap is sampled; thread / loop / run identity makes the usual breakages (a private loop or trio.run per execute) deterministic to detect",
    "a stall is reported only if it reproduces in three consecutive runs of the same scenario; heartbeat progress while a thread payload blocks is judged relative to an idle control window of the same run (>= 15 % of the control rate; skipped if the control window itself has < 8 beats), in scenarios without CPU-burning threads",
]
BOUND = 25


@st.composite
def program(draw, short):
    n = draw(st.integers(1, 6 if short else 25))
    us = draw(st.sampled_from([50, 200, 1000]))
    out = []
    for _ in range(n):
        out.append(["section", us])
        out.append(draw(st.sampled_from([["sleep", 0], ["sleep", 1], ["spin", 2]])))
    return out


@st.composite
def scenario(draw):
    direction = draw(st.sampled_from(["asyncio->trio", "trio->asyncio"]))
    payloads = [{"id": 100 + i, "flavour": f, "role": "heartbeat", "reg": {"how": "pre"}, "program": [["beat", 5, 1000000]], "end": ["forever"], "cleanup": {}}
                for i, f in enumerate(COROUTINE)]
    callers = {"outside0": [], "outside1": [], "threading": [], "asyncio": [], "trio": []}
    pid = 0
    for flv in COROUTINE:
        for _ in range(draw(st.integers(2, 10))):
            pid += 1
            how = draw(st.sampled_from(["pre", "pre-service", "outside", "from", "execute", "execute"]))
            short = how == "execute"
            p = {"id": pid, "flavour": flv, "role": "worker", "how": how, "program": draw(program(short)), "end": ["return", "None"] if short else ["forever"], "cleanup": {}}
            t = draw(st.sampled_from([0, 1, 5, 20, 60]))
            if how in ("pre", "pre-service"):
                p["reg"] = {"how": how}
            elif how == "outside":
                p["reg"] = {"how": "outside"}
                callers[draw(st.sampled_from(["outside0", "outside1"]))].append((t, draw(st.sampled_from(["adopt", "service"])), pid))
            elif how == "from" and draw(st.integers(0, 3)) == 0:
                # adopted by a thread payload from inside an event loop of its own (e.g. a library using asyncio.run)
                p["reg"] = {"how": "from"}
                p["how"] = "from-private-loop"
                callers["threading"].append((t, "adopt-private:" + draw(st.sampled_from(["asyncio", "trio"])), pid))
            elif how == "from":
                src = draw(st.sampled_from(ALL))
                if src == "asyncio" and flv == "trio" and direction == "trio->asyncio":
                    src = "threading"  # adopt(trio) blocks the asyncio loop: only in the asyncio->trio direction
                p["reg"] = {"how": "from"}
                callers[src].append((t, draw(st.sampled_from(["adopt", "service"])), pid))
            else:
                other = "asyncio" if flv == "trio" else "trio"
                allowed = ["outside0", "outside1", "threading"] + ([other] if direction == f"{other}->{flv}" else [])
                src = draw(st.sampled_from(allowed))
                p["reg"] = {"how": "execute"}
                p["caller"] = src
                callers[src].append((t, "execute", pid))
            payloads.append(p)
    blockers = draw(st.integers(0, 4))
    longest = 0
    mass = draw(st.integers(0, 5)) == 0
    if mass:
        # many thread payloads that block at the same time, adopted from inside a coroutine payload
        src = draw(st.sampled_from(["asyncio", "trio"]))
        count = draw(st.sampled_from([25, 40]))
        for i in range(count):
            payloads.append({"id": 400 + i, "flavour": "threading", "role": "blocker", "kind": "block", "reg": {"how": "from"},
                             "program": [["mark-begin"], ["block", 300], ["mark-end"]], "end": ["return", "None"]})
            callers[src].append((5 + 2 * i, "adopt", 400 + i))  # spaced out: starting a thread is synchronous work inside the coroutine
        longest = 500 + 2 * count
    if draw(st.integers(0, 3)) == 0:
        # an outside thread executes a payload that takes 300 ms while coroutine payloads keep adopting/executing
        lflv = draw(st.sampled_from(ALL))
        payloads.append({"id": 390, "flavour": lflv, "role": "blocker", "kind": "block", "how": "execute", "reg": {"how": "execute"}, "caller": "outside0",
                         "program": [["mark-begin"], ["sleep", 300], ["mark-end"]], "end": ["return", "None"], "cleanup": {}})
        callers["outside0"].append((draw(st.sampled_from([0, 5, 15])), "execute", 390))
        longest = max(longest, 330)
    late = draw(st.integers(0, 4)) == 0
    drivers = []
    for k in ("outside0", "outside1"):
        drivers.append([{"at_ms": t, "op": op, "pid": c} for t, op, c in sorted(callers[k])])
    by_id = {p["id"]: p for p in payloads}
    for flv in ALL:
        if callers[flv]:
            prog, now = [], 0
            for t, op, c in sorted(callers[flv]):
                if t > now:
                    prog.append(["sleep", t - now])
                    now = t
                if op.startswith("adopt-private:"):
                    prog.append(["adopt-private", c, op.split(":")[1], 150])
                elif op == "adopt" and flv in COROUTINE and by_id.get(c, {}).get("flavour") == flv and draw(st.booleans()):
                    # adopted from the middle of a checkpoint-free section of a payload of the same flavour
                    prog.append(["section-adopt", 500, c])
                    by_id[c]["how"] = "from-inside-a-section"
                else:
                    prog.append([op, c])
            prog.append(["sleep", 600000] if flv != "threading" else ["wait", "never"])
            payloads.append({"id": 200 + ALL.index(flv), "flavour": flv, "role": "caller", "reg": {"how": "pre"}, "program": prog, "end": ["forever"], "cleanup": {}})
    # CPU burners only perturb the schedule (the GIL is not fair, so they may starve anything); the
    # "does not stall" clause is judged in scenarios whose thread payloads block without burning
    burners = draw(st.booleans())
    for i in range(blockers):
        kind = "burn" if burners and draw(st.booleans()) else "block"
        ms = draw(st.sampled_from([200, 300, 500]))
        start = draw(st.sampled_from([0, 10, 50]))
        longest = max(longest, start + ms)
        payloads.append({"id": 300 + i, "flavour": "threading", "role": "blocker", "kind": kind, "reg": {"how": "pre"},
                         "program": [["sleep", start], ["mark-begin"], [kind, ms], ["mark-end"]], "end": ["return", "None"]})
    if draw(st.integers(0, 3)) == 0:
        # a blocking thread service whose class refines a service class declared for a coroutine flavour
        ms = draw(st.sampled_from([200, 300]))
        longest = max(longest, 10 + ms)
        payloads.append({"id": 330, "flavour": "threading", "role": "blocker", "kind": "block", "reg": {"how": "pre-service"}, "refines": draw(st.sampled_from(COROUTINE)),
                         "program": [["sleep", 10], ["mark-begin"], ["block", ms], ["mark-end"]], "end": ["return", "None"]})
    # after the last blocking interval the scenario idles for 200 ms: the heartbeat rate in that window is the
    # control against which the rate during blocking intervals is judged (machine load affects both alike)
    total = max(longest + 60, 250) + 200
    drivers.append([{"at_ms": total - 190, "op": "mark", "name": "control-begin"}, {"at_ms": total - 10, "op": "mark", "name": "control-end"},
                    {"at_ms": total, "op": "shutdown"}])
    if draw(st.integers(0, 3)) == 0:
        # coroutine payloads parked on an awaitable that only their own task refers to, while other threads run the garbage
        # collector: their clean-up must still run on their own thread, when the runtime cancels them
        for i, flv in enumerate(draw(st.lists(st.sampled_from(COROUTINE), min_size=1, max_size=3))):
            payloads.append({"id": 520 + i, "flavour": flv, "role": "worker", "how": draw(st.sampled_from(["pre", "pre-service"])), "program": [["section", 200], ["park"]],
                             "end": ["forever"], "cleanup": {}})
            payloads[-1]["reg"] = {"how": payloads[-1]["how"]}
        drivers.append([{"at_ms": t, "op": "gc"} for t in sorted(draw(st.lists(st.sampled_from([20, 50, 90, 150, 220]), min_size=1, max_size=3, unique=True)))])
    if not late and draw(st.integers(0, 2)) == 0:
        # thread payloads that are still blocked when the runtime is shut down, and an executed asyncio payload whose life spans
        # the shutdown: its beats must not pause while the runtime deals with the blocked threads
        for i in range(draw(st.integers(1, 4))):
            payloads.append({"id": 500 + i, "flavour": "threading", "role": "late-blocker", "reg": {"how": "pre"},
                             "program": [["sleep", max(0, total - 60)], ["block", 60000]], "end": ["return", "None"]})
        payloads.append({"id": 395, "flavour": "asyncio", "role": "spanning", "how": "execute", "caller": "outside-span", "reg": {"how": "execute"},
                         "program": [["beat", 10, 80]], "end": ["return", "None"], "cleanup": {}})
        drivers.append([{"at_ms": total - 150, "op": "execute", "pid": 395}])
    if late:
        # executes issued around the moment of shutdown, while adopted payloads are still being cleaned up
        script = []
        for i in range(draw(st.integers(1, 3))):
            flv = draw(st.sampled_from(COROUTINE))
            payloads.append({"id": 380 + i, "flavour": flv, "role": "worker", "how": "execute", "caller": "outside-late", "reg": {"how": "execute"},
                             "program": [["section", 1000], ["sleep", 1], ["section", 1000]], "end": ["return", "None"], "cleanup": {}})
            script.append({"at_ms": total + draw(st.sampled_from([-10, 0, 3, 10, 40])), "op": "execute", "pid": 380 + i})
        drivers.append(sorted(script, key=lambda x: x["at_ms"]))
        for p in payloads:
            if p["role"] == "worker" and p.get("how") != "execute" and p["flavour"] == "asyncio":
                p["cleanup"] = {"sync_ms": 80}
    return {"runner": "service", "accept_delay": draw(st.sampled_from([0.005, 0.02])), "switchinterval": draw(switchinterval), "bound_s": BOUND,
            "linger_ms": 20, "payloads": payloads, "drivers": drivers, "direction": direction}


def judge(sc, obs) -> Result:
    res = Result()
    if obs.get("worker_error"):
        raise HarnessError("scenario worker failed: " + str(obs["worker_error"]))
    if obs.get("hang") or not obs.get("episodes"):
        res.expensive = True
        res.fail("runtime-stuck", f"accept() did not end within {BOUND}s; threads {obs.get('hang_threads')}")
        return res
    out = obs["episodes"][0]
    for o in obs.get("ops", []):
        if o.get("error"):
            raise HarnessError(f"driver thread failed: {o}")
        if o.get("raised") and o.get("op") in ("adopt", "execute", "service"):
            sd = [x["t_call"] for x in obs["ops"] if x.get("op") == "shutdown"]
            if not sd or o.get("t_return", 1 << 62) < min(sd):
                res.fail("submission-raised", f"{o['op']} of payload {o['pid']} by {o['by']} raised {o['raised']}: {o.get('raised_repr')}")
    if out["how"] != "returned":
        res.fail("runtime-failed", f"accept() raised {out.get('exc')}")
        return res
    specs = {p["id"]: p for p in sc["payloads"]}
    threads = {"asyncio": set(), "trio": set(), "threading": set()}
    idents = {"asyncio": set(), "trio": set()}
    for e in obs["log"]:
        p = specs.get(e[2])
        if p is None:
            continue
        if p["flavour"] == "threading":
            if p["role"] == "blocker":
                threads["threading"].add(e[1])
            continue
        threads[p["flavour"]].add(e[1])
        ctx = e[4].get("ctx")
        if ctx:
            idents[p["flavour"]].add(ctx.get("loop") if p["flavour"] == "asyncio" else ctx.get("token"))
        if e[3] == "section" and e[4].get("seen") != 1:
            res.fail("sections-overlap", f"{p['flavour']} payload {e[2]} ({p.get('how')}) saw {e[4].get('seen')} payloads of its flavour inside a synchronous section")
    for flv in COROUTINE:
        if len(threads[flv]) > 1:
            who = {}
            for e in obs["log"]:
                p = specs.get(e[2])
                if p and p["flavour"] == flv:
                    who.setdefault(e[1], set()).add((e[2], p.get("how", p["role"])))
            res.fail("more-than-one-thread", f"{flv} payloads ran on {len(threads[flv])} threads: { {t: sorted(v)[:3] for t, v in who.items()} }")
        if len(idents[flv]) > 1 or None in idents[flv]:
            res.fail("more-than-one-loop", f"{flv} payloads saw {len(idents[flv])} different loop/run identities: {idents[flv]}")
    if threads["asyncio"] & threads["trio"]:
        res.fail("shared-thread", "asyncio and trio payloads share a thread")
    if (threads["asyncio"] | threads["trio"]) & threads["threading"]:
        res.fail("thread-payload-in-loop-thread", "a thread payload ran in an event loop thread")
    # ---- blocking threads do not stall coroutine payloads
    burning = any(p["role"] == "blocker" and p["kind"] == "burn" for p in sc["payloads"])
    for p in sc["payloads"]:
        if p["role"] != "blocker" or burning:
            continue
        b = events(obs, "block-begin", p["id"]) + [e for e in events(obs, "step", p["id"])][:0]
        marks = [e for e in events(obs, pid=p["id"]) if e[3] in ("mark-begin", "mark-end")]
        if len(marks) < 2:
            continue
        t0, t1 = marks[0][0], marks[1][0]
        ctrl = {e[4]["name"]: e[0] for e in events(obs, "mark")}
        c0, c1 = ctrl.get("control-begin"), ctrl.get("control-end")
        if c0 is None or c1 is None or t1 > c0:
            continue
        for hb in (x for x in sc["payloads"] if x["role"] == "heartbeat"):
            all_beats = events(obs, "beat", hb["id"])
            beats = [e for e in all_beats if t0 <= e[0] <= t1]
            control = [e for e in all_beats if c0 <= e[0] <= c1]
            if len(control) < 8:
                continue  # the machine is too loaded to judge anything
            rate, rate_c = len(beats) / max(t1 - t0, 1), len(control) / max(c1 - c0, 1)
            if rate < 0.15 * rate_c:
                res.fail("coroutines-stalled-by-thread", f"{hb['flavour']} heartbeat logged {len(beats)} beats during the {(t1 - t0) / 1e6:.0f} ms in which payload {p['id']} ({p['flavour']}) was blocked, against {len(control)} beats in the idle {(c1 - c0) / 1e6:.0f} ms control window")
    # ---- ... nor while the runtime shuts down around threads that are still blocked
    if any(p["role"] == "spanning" for p in sc["payloads"]) and not burning:
        sd = [x["t_call"] for x in obs["ops"] if x.get("op") == "shutdown"]
        beats = [e[0] for e in events(obs, "beat", 395)]
        if sd and len(beats) >= 2:
            t_sd = min(sd)
            before = [b - a for a, b in zip(beats, beats[1:]) if b < t_sd]
            after = [b - a for a, b in zip(beats, beats[1:]) if b >= t_sd]
            if len(before) >= 5 and after and max(after) > max(300e6, 8 * max(before)):
                res.fail("coroutines-stalled-by-thread", f"the beats of an executed asyncio payload paused for {max(after) / 1e6:.0f} ms during shutdown with "
                                                         f"{sum(1 for p in sc['payloads'] if p['role'] == 'late-blocker')} thread payloads still blocked "
                                                         f"(longest pause before shutdown: {max(before) / 1e6:.0f} ms)")
    return res


def run_case(sc) -> Result:
    obs = run_scenario(sc)
    res = judge(sc, obs)
    if res.violations and all(v.clause == "coroutines-stalled-by-thread" for v in res.violations):
        # a stall is a timing observation: a defect (a lock or a blocking call on the loop thread) repeats every
        # time, a scheduling hiccup of a loaded machine does not - report only what shows in three runs out of three
        for _ in range(2):
            again = judge(sc, run_scenario(sc))
            if not any(v.clause == "coroutines-stalled-by-thread" for v in again.violations):
                res.violations = []
                res.cls("stall-not-reproduced")
                break
    nt = False
    for flv in COROUTINE:
        hows = [p.get("how") for p in sc["payloads"] if p["role"] == "worker" and p["flavour"] == flv]
        res.cls(f"{flv}:adopted:%d" % sum(1 for h in hows if h in ("pre", "outside", "from", "from-private-loop", "from-inside-a-section")), f"{flv}:from-inside-a-section:%d" % sum(1 for h in hows if h == "from-inside-a-section"), f"{flv}:from-private-loop:%d" % sum(1 for h in hows if h == "from-private-loop"), f"{flv}:executed:%d" % sum(1 for h in hows if h == "execute"),
                f"{flv}:service:%d" % sum(1 for h in hows if h == "pre-service"))
        if "execute" in hows and any(h in ("pre", "outside", "from", "pre-service", "from-private-loop") for h in hows):
            nt = True
    res.cls("blockers:%d" % sum(1 for p in sc["payloads"] if p["role"] == "blocker"), "direction:" + sc["direction"],
            "blocked-threads-at-shutdown:" + str(any(p["role"] == "late-blocker" for p in sc["payloads"])))
    nsec = sum(1 for e in obs.get("log", []) if e[3] == "section")
    res.cls("sections:%s" % ("0" if not nsec else "<50" if nsec < 50 else ">=50"))
    res.nontrivial = nt
    if res.violations:
        res.info = {"episodes": obs.get("episodes"), "ops": [o for o in obs.get("ops", []) if o.get("raised")][:5]}
    return res


def tests(tier):
    t = [TestDef("scenarios", run_case, strategy=scenario(), quick=320, thorough=10000, shards_quick=16, shrink_budget=30, slow=True)]
    t[0].replay_runs = 10
    return t
