"""C10 - execute hands the payload's outcome to the caller and leaves the runtime alone"""
from hypothesis import strategies as st

from engines.runtime_worker import run_scenario
from engines.scenarios import ALL, EXC_NAMES, RETURN_NAMES, events, switchinterval
from props.c03 import arguments
from vlib.core import HarnessError, Result, TestDef

ID = "C10"
LEVEL = "exploration"
RULE = (
    "Hypothesis-generated scenarios run by the runtime interpreter in a forked process: a running ServiceRunner with beating bystanders "
    "of all three flavours and 1-15 execute calls: payload flavour x caller {outside thread, thread payload, coroutine payload of "
    "the other coroutine flavour, coroutine payload calling a thread payload} x outcome {return None / falsy / truthy / fresh object, "
    "raise one of ~35 Exception subclasses} x generated positional and keyword arguments, interleaved with adopts of further "
    "background payloads. Oracle: each executed payload logged exactly one start with exactly the given arguments in its flavour's "
    "context (the loop / trio run shared with the bystanders; the caller's thread for thread payloads); the caller received the very "
    "object returned or caught the very exception raised (identity, evaluated in the worker); afterwards every bystander keeps "
    "beating, none was cancelled, and accept() ends only when the harness calls shutdown(), returning normally. Non-trivial = an "
    "exception or non-None outcome delivered to a caller inside a payload; distinct = canonical JSON of the scenario."
)
ASSUMPTIONS = [
    "one blocking cross-loop direction per scenario (asyncio->trio or trio->asyncio): both at once deadlock by design; execute of a payload's own coroutine flavour from inside it is not generated",
    "StopIteration/StopAsyncIteration are excluded for coroutine flavours; the exact classes concurrent.futures.CancelledError/InvalidStateError are excluded and for an exact TimeoutError from an asyncio payload only the type is judged: Python's future plumbing re-creates these; their subclasses are generated and judged by identity",
    "executed payloads are short (<= 50 ms)",
]
BOUND = 25
# the exact concurrent.futures classes are re-created by Python's future plumbing when they cross threads:
# for those only the type of what the caller catches is judged, not its identity
CONVERTED = {"CancelledFuture": "CancelledError", "InvalidStateError": "InvalidStateError", "TimeoutError": "TimeoutError"}
EXC_OK = [n for n in EXC_NAMES if n not in ("StopIteration", "StopAsyncIteration", "CancelledFuture", "InvalidStateError")]


@st.composite
def scenario(draw):
    direction = draw(st.sampled_from(["asyncio->trio", "trio->asyncio"]))
    payloads = [{"id": 100 + i, "flavour": f, "role": "bystander", "reg": {"how": "pre"}, "program": [["beat", 3, 1000000]], "end": ["forever"], "cleanup": {}}
                for i, f in enumerate(ALL)]
    for i in range(draw(st.integers(0, 2))):
        payloads.append({"id": 110 + i, "flavour": draw(st.sampled_from(ALL)), "role": "bystander", "reg": {"how": draw(st.sampled_from(["pre", "pre-service"]))},
                         "program": [["beat", 3, 1000000]], "end": ["forever"], "cleanup": {}})
    callers = {"outside": [], "outside2": [], "threading": [], "asyncio": [], "trio": []}
    n = draw(st.integers(1, 15))
    pid = 0
    nexec = 0
    for _ in range(n):
        pid += 1
        caller = draw(st.sampled_from(["outside", "outside2", "threading", "asyncio", "trio"]))
        if caller == "asyncio":
            flv = draw(st.sampled_from(["threading"] + (["trio"] if direction == "asyncio->trio" else [])))
        elif caller == "trio":
            flv = draw(st.sampled_from(["threading"] + (["asyncio"] if direction == "trio->asyncio" else [])))
        else:
            flv = draw(st.sampled_from(ALL))
        if draw(st.integers(0, 4)) == 0:
            # an adopt in between
            aflv = ALL if not (caller == "asyncio" and direction == "trio->asyncio") else ["asyncio", "threading"]
            p = {"id": pid, "flavour": draw(st.sampled_from(aflv)), "role": "adopted", "program": [["beat", 3, 1000000]], "end": ["forever"], "cleanup": {}}
            p.update(draw(arguments()))
            p["reg"] = {"how": "outside" if caller.startswith("outside") else "from"}
            callers[caller].append(("adopt", pid))
            payloads.append(p)
            continue
        kind = draw(st.sampled_from(["none", "ret", "ret", "exc", "exc"]))
        end = ["return", "None"] if kind == "none" else ["return", draw(st.sampled_from(RETURN_NAMES))] if kind == "ret" else ["raise", draw(st.sampled_from(EXC_OK))]
        p = {"id": pid, "flavour": flv, "role": "executed", "caller": caller, "kind": kind, "end": end,
             "program": [["sleep", draw(st.sampled_from([0, 0, 1, 10, 50]))]] if draw(st.booleans()) else [],
             "reg": {"how": "execute"}, "cleanup": {}}
        shape = draw(st.sampled_from([None, None, None, "no-module", "partial", "instance", "method"]))  # what kind of callable the payload is
        if shape:
            p["callable"] = shape
        p.update(draw(arguments()))
        payloads.append(p)
        callers[caller].append(("execute", pid))
        nexec += 1
    # two outside threads execute concurrently (their calls overlap and finish out of order)
    drivers = [[{"at_ms": 2 * i, "op": op, "pid": c} for i, (op, c) in enumerate(callers["outside"])],
               [{"at_ms": 2 * i + 1, "op": op, "pid": c} for i, (op, c) in enumerate(callers["outside2"])]]
    for flv in ALL:
        if callers[flv]:
            first = draw(st.sampled_from([0, 0, 2]))  # 0: the caller acts the moment it starts (while the runtime still unqueues)
            program = [["sleep", first]] if first else []
            for op, c in callers[flv]:
                program += [[op, c], ["sleep", 1]]
            program.append(["beat", 3, 1000000])
            payloads.append({"id": 200 + ALL.index(flv), "flavour": flv, "role": "caller", "reg": {"how": "pre"}, "program": program, "end": ["forever"], "cleanup": {}})
    drivers.append([{"at_ms": 0, "op": "await-ops", "kind": "execute", "n": nexec, "timeout_ms": 20000}, {"at_ms": 0, "op": "sleep", "ms": 10},
                    {"at_ms": 0, "op": "mark", "name": "alive-check"},
                    {"at_ms": 0, "op": "await-beats", "pids": [p["id"] for p in payloads if p["role"] == "bystander"], "k": 3, "timeout_ms": 5000},
                    {"at_ms": 0, "op": "mark", "name": "before-shutdown"}, {"at_ms": 0, "op": "shutdown"}])
    sc = {"runner": "service", "accept_delay": draw(st.sampled_from([0.005, 0.02])), "switchinterval": draw(switchinterval), "bound_s": BOUND,
          "linger_ms": 20, "payloads": payloads, "drivers": drivers, "direction": direction, "nexec": nexec}
    if draw(st.integers(0, 4)) == 0 and n <= 8:
        # harness-owned schedule: per-thread delays at every source line of the runner modules
        sc["trace_delay"] = {"files": ["runners/asyncio_runner.py", "runners/trio_runner.py", "runners/thread_runner.py", "runners/meta_runner.py",
                                       "runners/base_runner.py"],
                             "delays_ms": [draw(st.sampled_from([0, 0, 1])), draw(st.sampled_from([0, 1, 2])), draw(st.sampled_from([0, 1, 3]))]}
    return sc


def judge(sc, obs) -> Result:
    res = Result()
    if obs.get("worker_error"):
        raise HarnessError("scenario worker failed: " + str(obs["worker_error"]))
    specs = {p["id"]: p for p in sc["payloads"]}
    ops = [o for o in obs.get("ops", []) if o.get("op") == "execute"]
    if obs.get("hang") or not obs.get("episodes"):
        res.expensive = True
        pending = [pid for pid, p in specs.items() if p["role"] == "executed" and pid not in {o["pid"] for o in ops}]
        res.fail("runtime-stuck", f"accept() did not end within {BOUND}s; executes that never returned: {[(pid, specs[pid]['flavour'], specs[pid]['caller']) for pid in pending[:5]]}; threads {obs.get('hang_threads')}")
        return res
    out = obs["episodes"][0]
    for o in obs.get("ops", []):
        if o.get("error"):
            raise HarnessError(f"driver thread failed: {o}")
    marks = {e[4]["name"]: e[0] for e in events(obs, "mark")}
    t_alive, t_before = marks.get("alive-check"), marks.get("before-shutdown")
    ref = {}
    for b in (p for p in sc["payloads"] if p["role"] == "bystander"):
        st_ev = events(obs, "start", b["id"])
        if st_ev:
            ref.setdefault(b["flavour"], st_ev[0][4]["ctx"])
    for o in ops:
        p = specs[o["pid"]]
        who = f"execute of {p['flavour']} payload {p['id']} ({p['end']}) from {o['by']}"
        starts = events(obs, "start", p["id"])
        if len(starts) != 1:
            res.fail("not-run-exactly-once", f"{who}: payload started {len(starts)} times")
            continue
        d = starts[0][4]
        if not d.get("args_ok"):
            res.fail("wrong-arguments", f"{who}: payload did not receive exactly args={p.get('args')} kwargs={p.get('kwargs')}")
        c = d.get("ctx", {})
        if p["flavour"] == "asyncio" and (c.get("loop") is None or c.get("loop") != ref.get("asyncio", {}).get("loop") or c.get("thread") != ref["asyncio"].get("thread")):
            res.fail("wrong-runner", f"{who}: ran in loop/thread {c}, the runtime's asyncio payloads run in {ref.get('asyncio')}")
        if p["flavour"] == "trio" and (c.get("token") is None or c.get("token") != ref.get("trio", {}).get("token")):
            res.fail("wrong-runner", f"{who}: ran in trio run {c}, the runtime's trio payloads run in {ref.get('trio')}")
        if p["flavour"] == "threading" and c.get("thread") in (ref.get("asyncio", {}).get("thread"), ref.get("trio", {}).get("thread")) and not o["by"].startswith("payload"):
            res.fail("wrong-runner", f"{who}: thread payload ran in an event loop thread")
        if p["end"][0] == "raise":
            if not o.get("raised"):
                res.fail("exception-not-delivered", f"{who}: the caller got {o.get('result')} instead of the exception")
            elif p["end"][1] in CONVERTED and p["flavour"] == "asyncio":
                if o.get("raised") != CONVERTED[p["end"][1]]:
                    res.fail("exception-type-changed", f"{who}: the caller caught {o.get('raised')} {o.get('raised_repr')} instead of a {CONVERTED[p['end'][1]]}")
            elif not o.get("raised_is_injected"):
                res.fail("exception-not-identical", f"{who}: the caller caught {o.get('raised')} {o.get('raised_repr')}, not the very exception raised")
        else:
            if o.get("raised"):
                res.fail("unexpected-exception", f"{who}: the caller caught {o.get('raised')}: {o.get('raised_repr')}")
            elif o.get("result") != "same":
                res.fail("result-not-identical", f"{who}: the caller received {o.get('result')}, not the very object returned")
    done = {o["pid"] for o in ops}
    for pid, p in specs.items():
        if p["role"] == "executed" and pid not in done:
            res.fail("execute-never-returned", f"execute of {p['flavour']} payload {pid} from {p['caller']} did not return")
    # ---- the runtime is left alone
    if out["how"] != "returned":
        res.fail("runtime-failed", f"accept() raised {out.get('exc')}: an executed payload's outcome was treated as a background failure")
        return res
    if t_alive is None or t_before is None:
        res.fail("harness-marks-missing", "alive marks missing")
        return res
    for b in (p for p in sc["payloads"] if p["role"] in ("bystander", "adopted")):
        evs = events(obs, pid=b["id"])
        cancelled = [e for e in evs if e[3] == "cancelled" and e[0] < t_before]
        if cancelled:
            res.fail("bystander-cancelled", f"{b['flavour']} {b['role']} {b['id']} was cancelled before shutdown")
    for e in events(obs, "beats"):
        for pid in e[4].get("missing", []):
            res.fail("bystander-stalled", f"{specs[pid]['flavour']} bystander {pid} did not log 3 further beats (period 3 ms) within {e[4]['waited_ms']:.0f} ms after the last execute")
    sd = [o for o in obs.get("ops", []) if o.get("op") == "shutdown"]
    if not sd or sd[0].get("result") != "returned":
        res.fail("shutdown-failed", f"shutdown: {sd}")
    return res


def run_case(sc) -> Result:
    obs = run_scenario(sc)
    res = judge(sc, obs)
    if res.violations and all(v.clause == "bystander-stalled" for v in res.violations):
        # bounded liveness is a timing observation: a bystander that an execute really takes down (cancelled, deadlocked, its
        # runner gone) stays down in every run of the same scenario, a starved thread on a loaded machine does not - only what
        # shows in three runs out of three is reported (seen once in about 600 runs under extreme load, never again in 220 replays)
        for _ in range(2):
            again = judge(sc, run_scenario(sc))
            if not any(v.clause == "bystander-stalled" for v in again.violations):
                res.violations = []
                res.cls("stall-not-reproduced")
                break
    nt = False
    for p in sc["payloads"]:
        if p["role"] == "executed":
            res.cls(f"{p['flavour']}<-{p['caller']}:{p['kind']}")
            if p["kind"] != "none" and not p["caller"].startswith("outside"):
                nt = True
    res.cls("schedule-perturbed:" + str(bool(sc.get("trace_delay"))))
    for p in sc["payloads"]:
        if p.get("callable"):
            res.cls("callable:" + p["callable"])
    res.cls("direction:" + sc["direction"], "executes:%s" % ("1" if sc["nexec"] <= 1 else "2-5" if sc["nexec"] <= 5 else ">5"))
    res.nontrivial = nt
    if res.violations:
        res.info = {"episodes": obs.get("episodes"), "ops": obs.get("ops", [])[:8], "log_tail": obs.get("log", [])[-15:]}
    return res


def enum_core(shard, nshards):
    """one execute per scenario: payload flavour x calling context x every outcome (each exception class, each return value)"""
    outcomes = [["return", "None"]] + [["return", n] for n in RETURN_NAMES] + [["raise", n] for n in EXC_OK]
    idx = 0
    for caller, flavours in (("outside", ALL), ("threading", ALL), ("asyncio", ["trio", "threading"]), ("trio", ["asyncio", "threading"])):
        for flv in flavours:
            for end in outcomes:
                idx += 1
                if idx % nshards != shard:
                    continue
                payloads = [{"id": 100 + i, "flavour": f, "role": "bystander", "reg": {"how": "pre"}, "program": [["beat", 3, 1000000]], "end": ["forever"], "cleanup": {}}
                            for i, f in enumerate(ALL)]
                kind = "none" if end == ["return", "None"] else "ret" if end[0] == "return" else "exc"
                payloads.append({"id": 1, "flavour": flv, "role": "executed", "caller": caller, "kind": kind, "end": end, "program": [], "reg": {"how": "execute"},
                                 "cleanup": {}, "args": [1, {"tag": 7}], "kwargs": {"a": "x"}})
                drivers = [[{"at_ms": 0, "op": "execute", "pid": 1}] if caller == "outside" else []]
                if caller != "outside":
                    payloads.append({"id": 200, "flavour": caller, "role": "caller", "reg": {"how": "pre"}, "program": [["execute", 1], ["beat", 3, 1000000]],
                                     "end": ["forever"], "cleanup": {}})
                drivers.append([{"at_ms": 0, "op": "await-ops", "kind": "execute", "n": 1, "timeout_ms": 20000}, {"at_ms": 0, "op": "mark", "name": "alive-check"},
                                {"at_ms": 0, "op": "await-beats", "pids": [100, 101, 102], "k": 3, "timeout_ms": 5000},
                                {"at_ms": 0, "op": "mark", "name": "before-shutdown"}, {"at_ms": 0, "op": "shutdown"}])
                yield {"runner": "service", "accept_delay": 0.01, "switchinterval": None, "bound_s": BOUND, "linger_ms": 10, "payloads": payloads,
                       "drivers": drivers, "direction": "asyncio->trio" if caller == "asyncio" else "trio->asyncio", "nexec": 1}


def tests(tier):
    t = [TestDef("scenarios", run_case, strategy=scenario(), quick=480, thorough=15000, shards_quick=16, shrink_budget=40, slow=True),
         TestDef("exhaustive-core", run_case, enumerate=enum_core, exhaustive=True, shards_quick=16, shards_thorough=16)]
    for td in t:
        td.replay_runs = 10
    return t
