"""C19 - Nested __type__ mappings translate bottom-up with exact error locations"""
import inspect
import re
import sys

from hypothesis import strategies as st

from cobald.daemon.config.mapping import ConfigurationError, Translator
from cobald.daemon.core.config import PipelineTranslator

from engines.plugin_scratch import write_module
from vlib.core import Result, TestDef

ID = "C19"
LEVEL = "exploration"
RULE = (
    "Hypothesis-generated trees (depth <= 6) of mappings, lists and scalars with __type__ nodes at arbitrary positions; factories "
    "are dotted names into a scratch package written at run time (function, class, nested class attribute, staticmethod, a module "
    "that is not yet imported, builtins, a functools.wraps wrapper whose reported signature is narrower than what it accepts, positional arguments handed over as a one-shot iterator) and record (name, args, kwargs) in a global call log; failing nodes: unknown module, "
    "unknown attribute, factory raising, non-string __type__, non-callable (module) and unbindable arguments. Oracle: an independent "
    "post-order evaluator (mapping items in order, list items last to first) gives the expected structure and call log, or the "
    "path of the first failing node and the call-log prefix; Translator and PipelineTranslator must both agree with it. "
    "Non-trivial = >= 2 __type__ nodes with one nested in another's arguments, or a failure at depth >= 2; distinct = canonical "
    "JSON of the tree."
)
ASSUMPTIONS = [
    "locations over identifier-like keys are tokenised into keys and indices; for keys with other characters ('%', '.', blanks, brackets, "
    "non-ASCII) the string is compared literally with the '.key' / '[index]' notation; the key 'pipeline' is not generated",
    "__args__ is a list, or a nested __type__ node whose factory returns a one-shot iterator over its own arguments (generated only in that position)",
]

PKG = "verifpkg_c19"
_SRC_INIT = '''
LOG = []

class Built:
    def __init__(self, name, args, kwargs):
        self.name, self.args, self.kwargs = name, list(args), dict(kwargs)
    def __eq__(self, other):
        return isinstance(other, Built) and (self.name, self.args, self.kwargs) == (other.name, other.args, other.kwargs)
    def __repr__(self):
        return "Built(%r, %r, %r)" % (self.name, self.args, self.kwargs)

def record(name, args, kwargs):
    LOG.append((name, list(args), dict(kwargs)))
    return Built(name, args, kwargs)
'''
_SRC_MOD_A = '''
import functools

from verifpkg_c19 import record, LOG

def func(*args, **kwargs):
    return record("func", args, kwargs)

def strict(a, b=1, *, c=None):
    return record("strict", (a, b), {"c": c})

def boom(*args, **kwargs):
    record("boom", args, kwargs)
    raise ValueError("factory failed")

def _narrow(a, b):
    """the reported signature of `wrapped` (inspect follows __wrapped__), not what it accepts"""

@functools.wraps(_narrow)
def wrapped(*args, **kwargs):
    return record("wrapped", args, kwargs)

def once(*args, **kwargs):
    """positional arguments for another factory, handed over as a one-shot iterator"""
    LOG.append(("once", list(args), dict(kwargs)))
    return iter(args)

class Klass:
    def __new__(cls, *args, **kwargs):
        return record("Klass", args, kwargs)

    class Inner:
        def __new__(cls, *args, **kwargs):
            return record("Inner", args, kwargs)

    @staticmethod
    def make(*args, **kwargs):
        return record("make", args, kwargs)
'''
_SRC_LATE = '''
from verifpkg_c19 import record

def late_func(*args, **kwargs):
    return record("late_func", args, kwargs)
'''

GOOD = {
    f"{PKG}.mod_a.func": "func",
    f"{PKG}.mod_a.Klass": "Klass",
    f"{PKG}.mod_a.Klass.Inner": "Inner",
    f"{PKG}.mod_a.Klass.make": "make",
    f"{PKG}.sub.late.late_func": "late_func",
    f"{PKG}.mod_a.strict": "strict",
    f"{PKG}.mod_a.wrapped": "wrapped",
}
ONCE = f"{PKG}.mod_a.once"
BAD = [
    "verif_no_such_module.thing", f"{PKG}.no_such_mod.func", f"{PKG}.mod_a.Nope", f"{PKG}.mod_a.Klass.Nope.deeper",
    f"{PKG}.mod_a.boom", f"{PKG}.mod_a", 5, None, ["x"], "", f"{PKG}..mod_a",
]

_ready = False


def ensure_pkg():
    global _ready
    if not _ready:
        write_module(f"{PKG}/__init__.py", _SRC_INIT)
        write_module(f"{PKG}/mod_a.py", _SRC_MOD_A)
        write_module(f"{PKG}/sub/__init__.py", "")
        write_module(f"{PKG}/sub/late.py", _SRC_LATE)
        _ready = True
    for name in [n for n in sys.modules if n.startswith(PKG + ".sub")]:
        del sys.modules[name]
    import verifpkg_c19

    if hasattr(verifpkg_c19, "sub"):
        del verifpkg_c19.sub
    return verifpkg_c19


ident = st.sampled_from(["a", "b", "c", "x", "key", "k_1", "interval", "target", "nested", "a", "b", "cpu%", "fmt %s", "50%%", "a.b", "x y", "[0]", "ünï", "__weight", "__meta__", "_private", "__"])
scalar = st.one_of(st.none(), st.booleans(), st.integers(-5, 100), st.floats(-10, 10, allow_nan=False), st.sampled_from(["", "s", "text", "__type__", "a.b"]))


def type_node(children):
    return st.builds(
        lambda t, args, kw: {"__type__": t, **({} if args is None else {"__args__": args}), **kw},
        st.one_of(st.sampled_from(sorted(GOOD)), st.sampled_from(sorted(GOOD)), st.sampled_from(sorted(GOOD)),
                  st.sampled_from(sorted(GOOD)), st.sampled_from(BAD), st.just("builtins.dict")),
        # __args__: absent, a list, or a nested factory that hands the positional arguments over as a one-shot iterator
        st.one_of(st.none(), st.lists(children, max_size=3), st.lists(children, max_size=3),
                  st.lists(children, max_size=3).map(lambda items: {"__type__": ONCE, "__args__": items})),
        st.dictionaries(ident, children, max_size=3),
    )


tree = st.recursive(
    scalar,
    lambda ch: st.one_of(st.lists(ch, max_size=4), st.dictionaries(ident, ch, max_size=4), type_node(ch), type_node(ch)),
    max_leaves=14,
)


class Failure(Exception):
    def __init__(self, path, why):
        self.path, self.why = path, why


class Evaluator:
    """Independent reference: post-order, mapping items in order, list items last to first"""

    def __init__(self, pkg):
        self.log = []
        self.pkg = pkg
        self.type_nodes = 0
        self.once = 0
        self.nested = False
        mod_a = __import__(f"{PKG}.mod_a", fromlist=["x"])
        self.strict_sig = inspect.signature(mod_a.strict)

    def ev(self, node, path, inside_type=False):
        if isinstance(node, dict):
            is_type = "__type__" in node
            if is_type:
                self.type_nodes += 1
                if inside_type:
                    self.nested = True
            out = {k: self.ev(v, path + [k], inside_type or is_type) for k, v in node.items()}
            if is_type:
                return self.construct(out, path)
            return out
        if isinstance(node, list):
            res = [None] * len(node)
            for i in reversed(range(len(node))):
                res[i] = self.ev(node[i], path + [i], inside_type)
            return res
        return node

    def construct(self, mapping, path):
        mapping = dict(mapping)
        t = mapping.pop("__type__")
        args = mapping.pop("__args__", [])
        if t == ONCE:
            self.log.append(("once", list(args), dict(mapping)))
            self.once += 1
            return list(args)  # the real one is an iterator over the same items
        if isinstance(t, str) and t == "builtins.dict":
            try:
                return dict(*args, **mapping)
            except Exception:
                raise Failure(path, "dict() rejects arguments")
        if not isinstance(t, str) or t not in GOOD:
            if t == f"{PKG}.mod_a.boom":
                self.log.append(("boom", list(args), dict(mapping)))
            raise Failure(path, f"bad factory {t!r}")
        name = GOOD[t]
        if name == "strict":
            try:
                b = self.strict_sig.bind(*args, **mapping)
            except TypeError:
                raise Failure(path, "arguments do not bind")
            b.apply_defaults()
            args, mapping = (b.arguments["a"], b.arguments["b"]), {"c": b.arguments["c"]}
        self.log.append((name, list(args), dict(mapping)))
        return self.pkg.Built(name, args, mapping)


def tokens(where):
    out = []
    for idx, key in re.findall(r"\[(-?\d+)\]|\.?([A-Za-z_][A-Za-z_0-9]*)", where or ""):
        out.append(int(idx) if idx != "" else key)
    return out


def depth_of(node):
    if isinstance(node, dict):
        return 1 + max([depth_of(v) for v in node.values()] or [0])
    if isinstance(node, list):
        return 1 + max([depth_of(v) for v in node] or [0])
    return 0


def run_case(spec) -> Result:
    res = Result()
    pkg = ensure_pkg()
    ev = Evaluator(pkg)
    try:
        want = ev.ev(spec, [])
        failure = None
    except Failure as f:
        want, failure = None, f
    import copy

    for cls in (Translator, PipelineTranslator):
        ensure_pkg()
        pkg.LOG.clear()
        original = copy.deepcopy(spec)
        try:
            got = cls().translate_hierarchy(spec)
            err = None
        except ConfigurationError as e:
            got, err = None, e
        except Exception as e:
            res.fail("wrong-exception-type", f"{cls.__name__}: {type(e).__name__}: {e} (expected ConfigurationError) for {spec}")
            return res
        log = list(pkg.LOG)
        tag = cls.__name__
        if spec != original:
            res.fail("input-mutated", f"{tag}: the input structure was modified: {spec!r} vs {original!r}")
        if failure is None:
            if err is not None:
                res.fail("unexpected-error", f"{tag}: {err} for valid tree {spec}")
                return res
            if got != want:
                res.fail("wrong-structure", f"{tag}: translated {got!r}, expected {want!r}")
            if log != ev.log:
                res.fail("wrong-call-log", f"{tag}: factory calls {log!r}, expected {ev.log!r}")
        else:
            if err is None:
                res.fail("error-not-reported", f"{tag}: node at {failure.path} must fail ({failure.why}) but translation returned {got!r}")
                return res
            simple = all(isinstance(k, int) or __import__("re").fullmatch(r"[A-Za-z_][A-Za-z_0-9]*", k) for k in failure.path)
            exact = "".join("[%d]" % k if isinstance(k, int) else ".%s" % k for k in failure.path)
            # identifier-like keys: the location is tokenised (robust to a different notation); other keys (with '%', '.', blanks,
            # brackets): the documented notation '.key' / '[index]' is compared literally
            if (tokens(err.where) != failure.path) if simple else (err.where != exact):
                res.fail("wrong-error-location", f"{tag}: where={err.where!r} but the offending element is at {failure.path} ({failure.why}); tree {spec}")
            if log != ev.log:
                res.fail("calls-after-failure", f"{tag}: factory calls {log!r}, expected exactly {ev.log!r} before the failure at {failure.path}")
        if res.violations:
            return res
    res.cls("depth:%d" % depth_of(spec), "types:%d" % min(ev.type_nodes, 6),
            "outcome:" + ("ok" if failure is None else "fail:" + failure.why.split(" ")[0]), "iterator-args:" + str(ev.once > 0))
    res.nontrivial = (ev.type_nodes >= 2 and ev.nested) or (failure is not None and len(failure.path) >= 2)
    return res


def tests(tier):
    return [TestDef("translate", run_case, strategy=tree, quick=12000, thorough=400000)]
