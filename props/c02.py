"""C02 - Termination cancels every coroutine payload and finishes its cleanup first"""
from hypothesis import strategies as st

from engines.runtime_worker import run_scenario
from engines.scenarios import ALL, BASE_NAMES, COROUTINE, EXC_NAMES, RETURN_NAMES, accept_delay, cleanup, events, switchinterval
from vlib.core import HarnessError, Result, TestDef

ID = "C02"
LEVEL = "fault_enumeration"
RULE = (
    "Hypothesis-generated termination scenarios run by the runtime interpreter in a forked process: trigger in {failure of an "
    "asyncio / trio / thread payload (Exception, non-None return, BaseException, raised KeyboardInterrupt), real SIGINT, "
    "ServiceRunner.shutdown(), MetaRunner.stop()} at a generated instant; 0-5 still-running coroutine payloads per flavour "
    "(long sleep, spinning on zero-length sleeps, beating, adopted a few ms before the trigger, adopted from another payload, "
    "adopted while the runtime is going down) with synchronous cleanup of 0-150 ms and, for trio, shielded asynchronous cleanup of "
    "0-400 ms; 0-3 blocked thread payloads; generated accept_delay and switch interval. Oracle over the per-payload event log "
    "(monotonic timestamps) and the instant T_end at which the blocking call ended: every coroutine payload that started and had not "
    "finished by itself logged its framework's cancellation exception and cleanup-done before T_end; no coroutine payload logs any "
    "step, beat or cleanup event after T_end (the harness listens for 300 ms more); the call ended within 20 s although thread "
    "payloads were still blocked. Non-trivial = a running coroutine payload of another flavour than the trigger's, or a shielded "
    "cleanup >= 50 ms, or a payload started within 5 ms of the trigger; distinct = canonical JSON of the scenario."
)
ASSUMPTIONS = [
    "one interrupt per run: a second SIGINT while the runtime is going down is Python's force-quit convention (asyncio re-raises it at once) and is outside the statement",
    "interleavings and trigger instants are sampled; bounded liveness (20 s) stands for 'never prevents termination'",
    "asyncio cleanup is synchronous only (the statement lists shielded asynchronous cleanup for trio only); payloads never swallow cancellation",
    "T_end is taken after the call returned, payload timestamps inside the payloads: an event later than T_end is really later",
]
BOUND = 20
CANCEL = {"asyncio": "asyncio.CancelledError", "trio": "trio.Cancelled"}


@st.composite
def scenario(draw):
    runner = draw(st.sampled_from(["service", "service", "meta"]))
    trig = draw(st.sampled_from(["failure", "failure", "failure", "sigint", "shutdown", "kbint-raise", "shutdown+failure", "shutdown+failure"]))
    at = draw(st.sampled_from([0, 2, 10, 40, 120]))
    payloads, drivers = [], [[]]
    pid = 10
    for flv in COROUTINE:
        for _ in range(draw(st.integers(0, 5))):
            pid += 1
            state = draw(st.sampled_from(["sleeping", "spinning", "beating", "late", "child", "during-shutdown"]))
            program = {"sleeping": [["sleep", 600000]], "spinning": [["spin", 10000000]], "beating": [["beat", 2, 1000000]]}.get(state, [["beat", 3, 1000000]])
            p = {"id": pid, "flavour": flv, "role": "victim", "state": state, "program": program, "end": ["forever"], "cleanup": draw(cleanup(flv))}
            if state == "late":
                p["reg"] = {"how": "outside"}
                drivers[0].append({"at_ms": max(0, at - draw(st.sampled_from([0, 1, 3, 5]))), "op": "adopt", "pid": pid})
            elif state == "during-shutdown":
                p["reg"] = {"how": "outside"}
                drivers[0].append({"at_ms": at + draw(st.sampled_from([0, 1, 5, 30, 100])), "op": "adopt", "pid": pid})
            elif state == "child":
                pflv = draw(st.sampled_from(ALL))
                parent = {"id": pid + 100, "flavour": pflv, "role": "parent", "reg": {"how": "pre"}, "end": ["forever"], "cleanup": {},
                          "program": [["sleep", draw(st.sampled_from([0, 1, max(0, at - 2)]))], ["adopt", pid]]}
                p["reg"] = {"how": "from", "parent": parent["id"]}
                payloads.append(parent)
            else:
                p["reg"] = {"how": draw(st.sampled_from(["pre", "pre", "pre-service"])) if runner == "service" else "pre"}
            payloads.append(p)
    for i in range(draw(st.integers(0, 3))):
        payloads.append({"id": 300 + i, "flavour": "threading", "role": "blocked", "reg": {"how": "pre"}, "program": [["block", 60000]],
                         "end": ["return", "None"]})
    trigger = {"kind": trig, "at_ms": at}
    if trig in ("shutdown+failure", "sigint+sigint"):
        # a second trigger while the runtime is already going down (inside the payloads' cleanup window)
        delta = draw(st.sampled_from([0, 1, 5, 20, 60, 150]))
        drivers.append([{"at_ms": at, "op": ("shutdown" if runner == "service" else "stop") if trig == "shutdown+failure" else "sigint"}])
        if trig == "sigint+sigint":
            drivers.append([{"at_ms": at + delta, "op": "sigint"}])
        else:
            flv = draw(st.sampled_from(ALL))
            k = draw(st.sampled_from(["exc", "ret", "base", "base"]))
            names = {"exc": [n for n in EXC_NAMES if n != "StopIteration"], "ret": RETURN_NAMES, "base": BASE_NAMES}[k]
            end = ["return" if k == "ret" else "raise", draw(st.sampled_from(names))]
            payloads.append({"id": 1, "flavour": flv, "role": "trigger", "reg": {"how": "pre"}, "program": [["sleep", at + delta]], "end": end})
            trigger["flavour"], trigger["end"], trigger["delta"] = flv, end, delta
    elif trig in ("failure", "kbint-raise"):
        flv = draw(st.sampled_from(ALL if trig == "failure" else ["asyncio", "threading"]))
        if trig == "kbint-raise":
            end = ["raise", "KeyboardInterrupt"]
        else:
            k = draw(st.sampled_from(["exc", "exc", "ret", "base"]))
            names = {"exc": [n for n in EXC_NAMES if n != "StopIteration"], "ret": RETURN_NAMES, "base": BASE_NAMES}[k]
            end = ["return" if k == "ret" else "raise", draw(st.sampled_from(names))]
        program = [["sleep", at + 1]]
        for n in range(draw(st.sampled_from([0, 0, 1, 2]))):
            # the failing payload adopts further payloads in the very step in which it fails
            pid += 1
            vflv = draw(st.sampled_from(COROUTINE))
            payloads.append({"id": pid, "flavour": vflv, "role": "victim", "state": "adopted-by-trigger", "reg": {"how": "from", "parent": 1},
                             "program": [["beat", 3, 1000000]], "end": ["forever"], "cleanup": draw(cleanup(vflv))})
            program.append(["adopt", pid])
        payloads.append({"id": 1, "flavour": flv, "role": "trigger", "reg": {"how": "pre"}, "program": program, "end": end})
        trigger["flavour"] = flv
        trigger["end"] = end
    elif trig == "shutdown" and draw(st.booleans()):
        # stop()/shutdown() requested by a payload: a thread payload calls it, a coroutine payload lets a worker thread call it
        flv = draw(st.sampled_from(ALL))
        payloads.append({"id": 1, "flavour": flv, "role": "trigger", "reg": {"how": "pre"}, "end": ["forever"], "cleanup": {},
                         "program": [["sleep", at], ["shutdown" if runner == "service" else "stop"]]})
        trigger["flavour"] = flv
    else:
        drivers.append([{"at_ms": at, "op": trig if trig != "shutdown" else ("shutdown" if runner == "service" else "stop")}])
    if (trig == "failure" and trigger["end"][0] in ("return", "raise") and trigger["end"][1] not in BASE_NAMES) or trig == "shutdown":
        # asyncio victims that absorb their first cancellation(s) around an inner await and only then wind down (a retry loop,
        # a suppressed CancelledError): the graceful close has to cancel them again until they are gone. Same domain as in
        # C01: only where cobald's own close runs to its end (no second, loop-aborting event; DESIGN.md section 11)
        for p in payloads:
            if p["role"] == "victim" and p["flavour"] == "asyncio" and p.get("state") in ("sleeping", "beating") and draw(st.integers(0, 3)) == 0:
                p["stubborn"] = draw(st.sampled_from([1, 1, 2, 4]))
    drivers[0].sort(key=lambda s: s["at_ms"])
    sc = {"runner": runner, "accept_delay": draw(accept_delay), "switchinterval": draw(switchinterval), "bound_s": BOUND, "linger_ms": 300,
          "payloads": payloads, "drivers": drivers, "trigger": trigger}
    if draw(st.integers(0, 4)) == 0 and len(payloads) <= 8:
        sc["trace_delay"] = {"files": ["runners/asyncio_runner.py", "runners/trio_runner.py", "runners/thread_runner.py", "runners/meta_runner.py",
                                       "runners/base_runner.py", "runners/service.py"],
                             "delays_ms": [draw(st.sampled_from([0, 0, 1])), draw(st.sampled_from([0, 1, 2])), draw(st.sampled_from([0, 1, 3]))]}
    return sc


def judge(sc, obs) -> Result:
    res = Result()
    trig = sc["trigger"]
    desc = f"trigger {trig} on {sc['runner']} runner"
    if obs.get("worker_error"):
        raise HarnessError("scenario worker failed: " + str(f"{obs['worker_error']} ({desc})"))
    if obs.get("hang") or not obs.get("episodes"):
        res.expensive = True
        res.fail("termination-blocked", f"the blocking call did not end within {BOUND}s ({desc}); threads: {obs.get('hang_threads')}")
        return res
    out = obs["episodes"][0]
    for o in obs.get("ops", []):
        if o.get("error"):
            raise HarnessError(f"driver thread failed: {o}")
    t_end = out["t_end"]
    specs = {p["id"]: p for p in sc["payloads"]}
    for pid, p in specs.items():
        if p["flavour"] not in COROUTINE or p["role"] == "trigger":
            continue
        evs = events(obs, pid=pid)
        kinds = [e[3] for e in evs]
        if "start" not in kinds:
            continue  # never started (e.g. discarded during shutdown): nothing to clean up
        late = [e for e in evs if e[0] > t_end and e[3] in ("step", "beat", "cleanup-begin", "cleanup-done", "cancelled", "start", "section")]
        if late:
            res.fail("step-after-end", f"{p['flavour']} payload {pid} ({p.get('state')}) logged {late[0][3]} {(late[0][0] - t_end) / 1e6:.2f} ms after the blocking call had ended ({desc}, cleanup {p.get('cleanup')})")
            continue
        if "finish" in kinds:
            continue
        cancelled = [e for e in evs if e[3] == "cancelled"]
        if not cancelled:
            res.fail("not-cancelled", f"{p['flavour']} payload {pid} ({p.get('state')}) was running but never received a cancellation ({desc}); its events: {kinds[-5:]}")
            continue
        if cancelled[0][4].get("exc") != CANCEL[p["flavour"]]:
            res.fail("wrong-cancellation-exception", f"{p['flavour']} payload {pid} cancelled through {cancelled[0][4].get('exc')}")
        done = [e for e in evs if e[3] == "cleanup-done"]
        if not done:
            res.fail("cleanup-unfinished", f"{p['flavour']} payload {pid} ({p.get('state')}) was cancelled but its cleanup {p.get('cleanup')} had not finished when the blocking call ended ({desc})")
        elif done[-1][0] > t_end:
            res.fail("cleanup-after-end", f"{p['flavour']} payload {pid} finished cleanup {(done[-1][0] - t_end) / 1e6:.2f} ms after the blocking call ended ({desc})")
    return res


def run_case(sc) -> Result:
    obs = run_scenario(sc)
    res = judge(sc, obs)
    trig = sc["trigger"]
    victims = [p for p in sc["payloads"] if p["role"] == "victim"]
    na = sum(1 for p in victims if p["flavour"] == "asyncio")
    nt = sum(1 for p in victims if p["flavour"] == "trio")
    shield = max([p["cleanup"].get("shield_ms", 0) for p in victims] or [0])
    sync = max([p["cleanup"].get("sync_ms", 0) for p in victims] or [0])
    res.cls("trigger:" + trig["kind"] + (":" + trig.get("flavour", "") if trig.get("flavour") else ""), "asyncio:%d" % na, "trio:%d" % nt,
            "shield:%s" % ("0" if not shield else "<50" if shield < 50 else ">=50"), "sync:%s" % ("0" if not sync else "<50" if sync < 50 else ">=50"),
            "blocked-threads:%d" % sum(1 for p in sc["payloads"] if p["role"] == "blocked"), "runner:" + sc["runner"],
            "schedule-perturbed:" + str(bool(sc.get("trace_delay"))))
    for p in victims:
        res.cls("state:" + p["state"] + (":absorbing" if p.get("stubborn") else ""))
    other = any(p["flavour"] != trig.get("flavour") for p in victims)
    res.nontrivial = bool(victims) and (other or shield >= 50 or any(p["state"] == "late" for p in victims))
    if res.violations:
        res.info = {"episodes": obs.get("episodes"), "ops": obs.get("ops"), "log_tail": obs.get("log", [])[-40:]}
    return res


def enum_core(shard, nshards):
    """every termination trigger x flavour/state/cleanup of one running coroutine payload x runner (finite core, enumerated completely)"""
    triggers = []
    for flv in ALL:
        for end in (["raise", "KeyError"], ["return", "0"], ["raise", "SystemExit"], ["raise", "GeneratorExit"], ["raise", "CustomBase"]):
            triggers.append({"kind": "failure", "flavour": flv, "end": end})
    for flv in ("asyncio", "threading"):
        triggers.append({"kind": "kbint-raise", "flavour": flv, "end": ["raise", "KeyboardInterrupt"]})
    triggers += [{"kind": "sigint"}, {"kind": "shutdown"}]
    idx = 0
    for runner in ("service", "meta"):
        for trig in triggers:
            for vflv in COROUTINE:
                for state, program in (("sleeping", [["sleep", 600000]]), ("spinning", [["spin", 10000000]]), ("beating", [["beat", 2, 1000000]])):
                    for cl in ({}, {"sync_ms": 30}, {"sync_ms": 0, "shield_ms": 120}):
                        if "shield_ms" in cl and vflv != "trio":
                            continue
                        idx += 1
                        if idx % nshards != shard:
                            continue
                        payloads = [{"id": 11, "flavour": vflv, "role": "victim", "state": state, "reg": {"how": "pre"}, "program": program,
                                     "end": ["forever"], "cleanup": dict(cl)},
                                    {"id": 300, "flavour": "threading", "role": "blocked", "reg": {"how": "pre"}, "program": [["block", 60000]], "end": ["return", "None"]}]
                        drivers = [[]]
                        t = dict(trig, at_ms=10)
                        if trig["kind"] in ("failure", "kbint-raise"):
                            payloads.append({"id": 1, "flavour": trig["flavour"], "role": "trigger", "reg": {"how": "pre"}, "program": [["sleep", 10]], "end": trig["end"]})
                        else:
                            op = trig["kind"] if trig["kind"] == "sigint" else ("shutdown" if runner == "service" else "stop")
                            drivers.append([{"at_ms": 10, "op": op}])
                        yield {"runner": runner, "accept_delay": 0.01, "switchinterval": None, "bound_s": BOUND, "linger_ms": 200,
                               "payloads": payloads, "drivers": drivers, "trigger": t}


def enum_long_cleanup(shard, nshards):
    """cleanup that takes longer than any plausible grace period: the blocking call must still wait for it (one scenario per trigger
    flavour; SystemExit is the trigger after which asyncio's own teardown does not wait for the trio thread)"""
    for i, flv in enumerate(("threading", "asyncio")):
        if i % nshards != shard:
            continue
        payloads = [{"id": 11, "flavour": "trio", "role": "victim", "state": "sleeping", "reg": {"how": "pre"}, "program": [["sleep", 600000]],
                     "end": ["forever"], "cleanup": {"sync_ms": 0, "shield_ms": 11000}},
                    {"id": 1, "flavour": flv, "role": "trigger", "reg": {"how": "pre"}, "program": [["sleep", 10]], "end": ["raise", "SystemExit"]}]
        yield {"runner": "service", "accept_delay": 0.01, "switchinterval": None, "bound_s": 40, "linger_ms": 1500, "payloads": payloads, "drivers": [[]],
               "trigger": {"kind": "failure", "flavour": flv, "end": ["raise", "SystemExit"], "at_ms": 10}}


def tests(tier):
    t = [TestDef("scenarios", run_case, strategy=scenario(), quick=400, thorough=15000, shards_quick=16, shrink_budget=40, slow=True),
         TestDef("exhaustive-core", run_case, enumerate=enum_core, exhaustive=True, shards_quick=16, shards_thorough=16),
         TestDef("long-cleanup", run_case, enumerate=enum_long_cleanup, exhaustive=True, shards_quick=2, shards_thorough=2)]
    for td in t:
        td.replay_runs = 10
    return t
