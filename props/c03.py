"""C03 - Every adopted payload and every service is started exactly once"""
from hypothesis import strategies as st

from engines.runtime_worker import run_scenario
from engines.scenarios import ALL, COROUTINE, events, switchinterval
from vlib.core import HarnessError, Result, TestDef

ID = "C03"
LEVEL = "exploration"
RULE = (
    "Hypothesis-generated scenarios (no failures injected) run by the runtime interpreter in a forked process. Steady phase: 0-12 "
    "payloads per flavour with generated positional/keyword arguments (JSON values and identity-tagged objects) submitted before "
    "start, at the moment the runner reports running, during the first polling cycles or after several accept_delay periods, by 1-4 "
    "concurrent outside threads or from inside a thread / asyncio / trio payload; 0-6 @service instances per flavour created before "
    "or after start by outside threads or payloads; small accept_delay so that 5-50 polling cycles pass. Shutdown-race phase: "
    "shutdown() while 1-3 threads keep adopting every few ms and coroutine payloads with long (shielded) cleanup keep the runtime "
    "in its 'finishing cleanup' window. Oracle at quiescence (all expected starts seen, plus 5 more polling periods): exactly one "
    "start per payload/service with exactly the submitted arguments, in the right flavour context (one loop + thread for asyncio, "
    "one trio token + thread for trio, other threads for thread payloads); every adopt returned None (while its payload was still running, within a 10 s bound) without raising; "
    "during shutdown no adopt whose call interval lies inside a payload's cleanup interval may raise and nothing starts twice. "
    "Non-trivial = >= 2 flavours and (an adoption from inside a payload, a service created after start, or an adoption inside a "
    "cleanup window); distinct = canonical JSON of the scenario."
)
ASSUMPTIONS = [
    "'none is lost' is judged as bounded liveness (20 s); interleavings are sampled",
    "adopt calls outside any cleanup interval after shutdown began are unconstrained (the runtime may already be gone)",
]
BOUND = 25
ARGV = st.one_of(st.integers(-5, 5), st.sampled_from(["", "a", None, 0.5, True]), st.integers(0, 50).map(lambda n: {"tag": n}),
                 st.lists(st.integers(0, 3), max_size=2))


# keyword names of the payload's own arguments - also names that a runtime API might be tempted to claim for itself
# (`flavour` is the documented keyword of adopt/execute; `payload` and `self` are the names of their positional parameters)
KWARG_NAMES = ["a", "b", "key", "flavour_", "x", "timeout", "delay", "name", "loop", "args", "kwargs", "block", "target", "daemon", "callback", "payload", "self"]


@st.composite
def arguments(draw):
    return {"args": draw(st.lists(ARGV, max_size=3)), "kwargs": draw(st.dictionaries(st.sampled_from(KWARG_NAMES), ARGV, max_size=3))}


@st.composite
def steady(draw):
    ad = draw(st.sampled_from([0.005, 0.01, 0.02]))
    times = [0, 0, 1, int(ad * 500), int(ad * 1000), int(ad * 3000), int(ad * 10000)]
    ndrivers = draw(st.integers(1, 4))
    drivers = [[] for _ in range(ndrivers)]
    parents = {}
    payloads = []
    pid = 0
    counts = {f: draw(st.integers(0, 12)) for f in ALL}
    while sum(counts.values()) > 24:
        counts[max(counts, key=counts.get)] -= 1
    if draw(st.integers(0, 5)) == 0:
        counts[draw(st.sampled_from(ALL))] = draw(st.sampled_from([25, 40, 70]))  # "0..n per flavour": occasionally many of one flavour
    nservices = {f: draw(st.integers(0, 6)) for f in ALL}
    while sum(nservices.values()) > 8:
        nservices[max(nservices, key=nservices.get)] -= 1
    inside = post_service = False
    for flv in ALL:
        for kind, n in (("adopt", counts[flv]), ("service", nservices[flv])):
            for _ in range(n):
                pid += 1
                p = {"id": pid, "flavour": flv, "role": kind, "program": [["beat", 5, 100000]], "end": ["forever"], "cleanup": {}}
                if kind == "adopt":
                    p.update(draw(arguments()))
                    shape = draw(st.sampled_from([None, None, None, None, "no-module", "partial", "instance", "method"]))
                    if shape:
                        p["callable"] = shape
                elif draw(st.integers(0, 4)) == 0:
                    # a singleton service: its class hands out the existing instance when it is constructed again (twice more, later)
                    p["singleton"] = 2
                elif draw(st.integers(0, 3)) == 0:
                    # service objects with value semantics: all equal and hashing alike, or unhashable
                    p["value_semantics"] = draw(st.sampled_from(["equal", "equal", "unhashable"]))
                elif draw(st.integers(0, 3)) == 0:
                    # the service class refines a service class that was declared for another flavour
                    p["refines"] = draw(st.sampled_from([f for f in ALL if f != flv]))
                mode = draw(st.sampled_from(["pre", "outside", "outside", "from", "from"]))
                t = draw(st.sampled_from(times))
                if mode == "pre":
                    p["reg"] = {"how": "pre" if kind == "adopt" else "pre-service"}
                elif mode == "outside":
                    p["reg"] = {"how": "outside"}
                    drivers[draw(st.integers(0, ndrivers - 1))].append({"at_ms": t, "op": kind, "pid": pid})
                    post_service |= kind == "service"
                else:
                    pflv = draw(st.sampled_from(ALL))
                    parents.setdefault(pflv, []).append((t, kind, pid))
                    p["reg"] = {"how": "from", "parent_flavour": pflv}
                    inside = True
                    post_service |= kind == "service"
                p["mode"] = mode
                payloads.append(p)
    for pflv, todo in parents.items():
        todo.sort()
        program, now = [], 0
        for t, kind, child in todo:
            if t > now:
                program.append(["sleep", t - now])
                now = t
            program.append([kind, child])
        program.append(["beat", 5, 100000])
        payloads.append({"id": 900 + ALL.index(pflv), "flavour": pflv, "role": "parent", "reg": {"how": "pre"}, "program": program,
                         "end": ["forever"], "cleanup": {}})
    churn = draw(st.integers(0, 2)) == 0
    if churn:
        # a service finishes and is dropped; a new service is created in the very same polling cycle
        script = []
        for i in range(draw(st.integers(1, 3))):
            flv_a, flv_b = draw(st.sampled_from(ALL)), draw(st.sampled_from(ALL))
            a, b = 800 + 2 * i, 801 + 2 * i
            payloads.append({"id": a, "flavour": flv_a, "role": "service", "mode": "churn-short", "reg": {"how": "outside"}, "program": [], "end": ["return", "None"], "cleanup": {}})
            payloads.append({"id": b, "flavour": flv_b, "role": "service", "mode": "churn-new", "reg": {"how": "outside"}, "program": [["beat", 5, 100000]], "end": ["forever"], "cleanup": {}})
            t0 = draw(st.sampled_from(times)) + 40 * i
            script += [{"at_ms": t0, "op": "service", "pid": a}, {"at_ms": t0, "op": "await-starts-of", "pids": [a], "timeout_ms": 10000},
                       {"at_ms": t0, "op": "sleep", "ms": int(ad * 3000) + 10}, {"at_ms": t0, "op": "drop-service", "pid": a}, {"at_ms": t0, "op": "service", "pid": b}]
        drivers.append(script)
        post_service = True
    for d in drivers[:ndrivers]:
        d.sort(key=lambda s: s["at_ms"])
    n_expected = len(payloads)
    drivers.append([{"at_ms": 0, "op": "await-starts", "n": n_expected, "timeout_ms": 20000},
                    {"at_ms": 0, "op": "sleep", "ms": int(ad * 5000) + 30}, {"at_ms": 0, "op": "shutdown"}])
    sc = {"phase": "steady", "runner": "service", "accept_delay": ad, "switchinterval": draw(switchinterval), "bound_s": BOUND, "linger_ms": 30,
          "payloads": payloads, "drivers": drivers, "expected": n_expected, "inside": inside, "post_service": post_service}
    if draw(st.integers(0, 2)) == 0 and n_expected <= 30:
        # the harness owns the schedule inside the (small) submission paths: per-thread delays at every source line of the
        # runner modules make concurrent submitters interleave at line granularity
        sc["trace_delay"] = {"files": ["runners/asyncio_runner.py", "runners/trio_runner.py", "runners/thread_runner.py", "runners/meta_runner.py", "runners/service.py"],
                             "delays_ms": [0, draw(st.sampled_from([0, 1, 2])), draw(st.sampled_from([0, 1, 3])), draw(st.sampled_from([1, 2]))]}
    return sc


@st.composite
def race(draw):
    ad = draw(st.sampled_from([0.005, 0.02]))
    payloads, drivers = [], []
    pid = 0
    for _ in range(draw(st.integers(1, 4))):
        pid += 1
        flv = draw(st.sampled_from(["trio", "trio", "asyncio"]))
        cl = {"sync_ms": draw(st.sampled_from([0, 50, 150]))}
        if flv == "trio":
            cl["shield_ms"] = draw(st.sampled_from([100, 200, 400]))
        victim = {"id": pid, "flavour": flv, "role": "victim", "reg": {"how": "pre"}, "program": [["sleep", 600000]], "end": ["forever"], "cleanup": cl}
        payloads.append(victim)
        # the victim itself hands further payloads to the runtime from its cancellation cleanup
        for _ in range(draw(st.sampled_from([0, 0, 1, 3]))):
            pid += 1
            p = {"id": pid, "flavour": draw(st.sampled_from(ALL + [flv])), "role": "adopt", "reg": {"how": "from-cleanup", "parent_flavour": flv},
                 "program": [["beat", 5, 100000]], "end": ["forever"], "cleanup": {}}
            p.update(draw(arguments()))
            payloads.append(p)
            cl.setdefault("adopt", []).append(pid)
    shutdown_at = draw(st.sampled_from([10, 30]))
    for d in range(draw(st.integers(1, 3))):
        script, t = [], shutdown_at - 5
        step = draw(st.sampled_from([5, 10, 20]))
        while t < shutdown_at + 450:
            pid += 1
            flv = draw(st.sampled_from(ALL + ["trio"]))
            p = {"id": pid, "flavour": flv, "role": "adopt", "reg": {"how": "outside"}, "program": [["beat", 5, 100000]], "end": ["forever"], "cleanup": {}}
            p.update(draw(arguments()))
            payloads.append(p)
            script.append({"at_ms": max(0, t), "op": "adopt", "pid": pid})
            t += step
        drivers.append(script)
    if draw(st.booleans()):
        program, t = [["sleep", shutdown_at]], shutdown_at
        for _ in range(draw(st.integers(3, 15))):
            pid += 1
            flv = draw(st.sampled_from(ALL + ["trio"]))
            p = {"id": pid, "flavour": flv, "role": "adopt", "reg": {"how": "from", "parent_flavour": "threading"}, "program": [["beat", 5, 100000]],
                 "end": ["forever"], "cleanup": {}}
            p.update(draw(arguments()))
            payloads.append(p)
            program += [["adopt", pid], ["sleep", 15]]
        payloads.append({"id": 900, "flavour": "threading", "role": "parent", "reg": {"how": "pre"}, "program": program, "end": ["return", "None"]})
    drivers.append([{"at_ms": shutdown_at, "op": "shutdown"}])
    return {"phase": "race", "runner": "service", "accept_delay": ad, "switchinterval": draw(switchinterval), "bound_s": BOUND, "linger_ms": 50,
            "payloads": payloads, "drivers": drivers}


def judge(sc, obs) -> Result:
    res = Result()
    if obs.get("worker_error"):
        raise HarnessError("scenario worker failed: " + str(obs["worker_error"]))
    if obs.get("hang") or not obs.get("episodes"):
        res.expensive = True
        res.fail("runtime-did-not-stop", f"accept() did not end within {BOUND}s after shutdown(); threads {obs.get('hang_threads')}")
        return res
    out = obs["episodes"][0]
    for o in obs.get("ops", []):
        if o.get("error"):
            raise HarnessError(f"driver thread failed: {o}")
    if out["how"] != "returned":
        res.fail("runtime-failed", f"no failure was injected but accept() raised {out.get('exc')}")
        return res
    specs = {p["id"]: p for p in sc["payloads"]}
    starts = {}
    for e in events(obs, "start"):
        starts.setdefault(e[2], []).append(e)
    # ---- exactly once, right arguments, right context
    ctx = {"asyncio": set(), "trio": set()}
    loop_threads = set()
    for pid, evs in starts.items():
        p = specs.get(pid)
        if p is None:
            continue
        if len(evs) > 1:
            res.fail("started-twice", f"{p['flavour']} {p['role']} {pid} (submitted {p.get('mode', p['reg'])}) was started {len(evs)} times")
        for e in evs:
            d = e[4]
            if not d.get("args_ok"):
                res.fail("wrong-arguments", f"{p['flavour']} payload {pid} did not receive exactly args={p.get('args')} kwargs={p.get('kwargs')}")
            if d.get("flavour") != p["flavour"]:
                res.fail("wrong-flavour", f"payload {pid} requested {p['flavour']}")
            c = d.get("ctx", {})
            if p["flavour"] == "asyncio":
                if c.get("loop") is None:
                    res.fail("wrong-flavour-context", f"asyncio payload {pid} started without a running asyncio loop")
                ctx["asyncio"].add((c.get("thread"), c.get("loop")))
                loop_threads.add(c.get("thread"))
            elif p["flavour"] == "trio":
                if c.get("token") is None:
                    res.fail("wrong-flavour-context", f"trio payload {pid} started outside a trio run")
                ctx["trio"].add((c.get("thread"), c.get("token")))
                loop_threads.add(c.get("thread"))
    for flv in COROUTINE:
        if len(ctx[flv]) > 1:
            res.fail("wrong-flavour-context", f"{flv} payloads ran in {len(ctx[flv])} different (thread, loop/run) contexts: {ctx[flv]}")
    if ctx["asyncio"] and ctx["trio"] and {t for t, _ in ctx["asyncio"]} & {t for t, _ in ctx["trio"]}:
        res.fail("wrong-flavour-context", "asyncio and trio payloads share a thread")
    for pid, evs in starts.items():
        p = specs.get(pid)
        # (thread identifiers are reused once a thread has exited, so this is only meaningful while both loops live)
        if sc["phase"] == "steady" and p and p["flavour"] == "threading" and evs[0][4].get("ctx", {}).get("thread") in loop_threads:
            res.fail("wrong-flavour-context", f"thread payload {pid} ran in an event-loop thread")
    # ---- adopt calls
    windows = []
    for p in sc["payloads"]:
        if p.get("role") == "victim":
            b = events(obs, "cleanup-begin", p["id"])
            d = events(obs, "cleanup-done", p["id"])
            if b and d:
                windows.append((b[0][0], d[-1][0]))
    shutdown_calls = [o["t_call"] for o in obs.get("ops", []) if o.get("op") in ("shutdown", "stop")]
    t_shutdown = min(shutdown_calls) if shutdown_calls else None
    in_window = 0
    for o in obs.get("ops", []):
        if o.get("op") not in ("adopt", "service"):
            continue
        before_shutdown = t_shutdown is None or o["t_return"] < t_shutdown
        inside = any(a <= o["t_call"] and o["t_return"] <= b for a, b in windows)
        if inside:
            in_window += 1
        if o.get("raised"):
            if before_shutdown:
                res.fail("adopt-raises", f"{o['op']} of payload {o['pid']} by {o['by']} raised {o['raised']}: {o.get('raised_repr')}")
            elif inside:
                res.fail("adopt-raises-during-cleanup", f"adopt of {specs[o['pid']]['flavour']} payload {o['pid']} by {o['by']} raised {o['raised']} ({o.get('raised_repr')}) while the runtime was finishing payload cleanup")
            continue
        if o["op"] == "adopt" and o.get("result") != "none" and (before_shutdown or inside):
            res.fail("adopt-returns-value", f"adopt returned {o.get('result')}")
        # the payloads run until the runtime stops, so an adopt that returns at all did not wait for its payload;
        # the duration is only bounded generously (10 s) - a loaded machine may take long to start a thread
        if (o["t_return"] - o["t_call"]) > 10e9 and before_shutdown:
            res.fail("adopt-waits", f"adopt of payload {o['pid']} by {o['by']} took {(o['t_return'] - o['t_call']) / 1e6:.0f} ms although the payload keeps running")
    # ---- nothing lost (steady phase)
    if sc["phase"] == "steady":
        lost = [pid for pid, p in specs.items() if pid not in starts]
        if lost:
            desc = [(pid, specs[pid]["flavour"], specs[pid]["role"], specs[pid].get("mode", specs[pid]["reg"]["how"])) for pid in lost[:6]]
            res.expensive = True
            res.fail("payload-lost", f"{len(lost)} of {len(specs)} payloads/services never started within the bound: {desc}")
    res.info_in_window = in_window
    return res


def run_case(sc) -> Result:
    obs = run_scenario(sc)
    res = judge(sc, obs)
    flavours = {p["flavour"] for p in sc["payloads"] if p["role"] in ("adopt", "service")}
    in_window = getattr(res, "info_in_window", 0)
    res.cls("refined-service:" + str(any(p.get("refines") for p in sc["payloads"])),
            "value-semantics-service:" + str(any(p.get("value_semantics") for p in sc["payloads"])),
            "singleton-service:" + str(any(p.get("singleton") for p in sc["payloads"])))
    res.cls("phase:" + sc["phase"], "flavours:%d" % len(flavours), "payloads:%s" % ("0" if not sc["payloads"] else "<10" if len(sc["payloads"]) < 10 else ">=10"),
            "adopts-in-cleanup-window:%s" % ("0" if not in_window else "1-5" if in_window <= 5 else ">5"))
    for p in sc["payloads"]:
        if p["role"] in ("adopt", "service"):
            res.cls(f"{p['role']}:{p['flavour']}:{p.get('mode', p['reg']['how'])}" + (":" + p["reg"].get("parent_flavour", "") if p["reg"]["how"] == "from" else ""))
    polls = len([e for e in obs.get("log", []) if e[3] == "quiescent"])
    res.nontrivial = len(flavours) >= 2 and (sc.get("inside") or sc.get("post_service") or in_window > 0)
    if res.violations:
        res.info = {"episodes": obs.get("episodes"), "ops": [o for o in obs.get("ops", []) if o.get("raised")][:5], "log_tail": obs.get("log", [])[-20:]}
    return res


def tests(tier):
    t = [TestDef("steady", run_case, strategy=steady(), quick=320, thorough=10000, shards_quick=16, shrink_budget=40, slow=True),
         TestDef("shutdown-race", run_case, strategy=race(), quick=160, thorough=5000, shards_quick=16, shrink_budget=30, slow=True)]
    for td in t:
        td.replay_runs = 10
    return t
