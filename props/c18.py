"""C18 - YAML loading never instantiates anything that is not a registered plugin"""
import os
import sys
import tempfile

import yaml
from hypothesis import strategies as st

from cobald.daemon.core.config import load

from engines.plugin_scratch import scratch_dir, write_module
from props.c05 import ensure as ensure_tags
from vlib.core import HarnessError, Result, TestDef
from vlib.fuzz import fuzz_testdef
from vlib.yamlemit import emit_document, value_nodes

ID = "C18"
LEVEL = "exploration"
RULE = (
    "Hypothesis-generated YAML documents that are valid cobald configurations except for exactly one node carrying a PyYAML "
    "python/* tag (name, module, object, object/apply, object/new and the typed variants none/bool/int/long/float/complex/str/"
    "unicode/bytes/list/tuple/dict; spelled !!python/..., !<tag:yaml.org,2002:python/...> or through a %TAG handle) or an "
    "unregistered !tag, with a generated argument shape and target (builtins, os/subprocess functions, cobald classes, a canary "
    "module that is not yet imported and writes a marker file on import, a recording canary callable/class), placed at a generated "
    "position: value of a plugin section, unknown top-level section, pipeline element, argument of a registered lazy/eager tag at "
    "depth 1-3, complex mapping key, inside the logging section, or anchored and reached through an alias. Oracle: load(path) "
    "raises; afterwards the canary module is not in sys.modules, no marker file exists and no canary callable was called or "
    "instantiated. Non-trivial = the tag is nested inside arguments of a registered tag, behind an alias or in key position; "
    "distinct = canonical JSON of the document spec."
)
ASSUMPTIONS = [
    "calls of real os/subprocess/builtins targets are not observed directly (only rejection is); canary targets make import, call "
    "and instantiation observable",
    "the emitted text is checked to be well-formed YAML with a neutral composer first (harness error otherwise)",
]

_LIVE = '''
CALLS = []

def fire(*args, **kwargs):
    CALLS.append(("fire", args, kwargs))
    return "fired"

class Boom:
    def __new__(cls, *args, **kwargs):
        CALLS.append(("Boom.__new__", args, kwargs))
        return super().__new__(cls)
    def __init__(self, *args, **kwargs):
        CALLS.append(("Boom.__init__", args, kwargs))
    def __setstate__(self, state):
        CALLS.append(("Boom.__setstate__", state))
'''
_LATE = '''
import os
open(os.path.join(os.path.dirname(__file__), "verifcanary_marker"), "w").write("imported")
def go(*args, **kwargs):
    return None
class Thing:
    pass
'''
_ready = False


def ensure():
    global _ready
    ensure_tags()
    if not _ready:
        write_module("verifcanary_live.py", _LIVE)
        write_module("verifcanary_late.py", _LATE)
        _ready = True
    import verifcanary_live

    sys.modules.pop("verifcanary_late", None)
    try:
        os.unlink(os.path.join(scratch_dir(), "verifcanary_marker"))
    except OSError:
        pass
    verifcanary_live.CALLS.clear()
    return verifcanary_live


FUNC_TARGETS = ["os.system", "subprocess.Popen", "builtins.eval", "builtins.print", "builtins.exec", "os.getcwd",
                "verifcanary_live.fire", "verifcanary_live.fire", "verifcanary_late.go"]
CLASS_TARGETS = ["cobald.controller.linear.LinearController", "cobald.decorator.buffer.Buffer", "builtins.dict", "subprocess.Popen",
                 "collections.OrderedDict", "verifcanary_live.Boom", "verifcanary_live.Boom", "verifcanary_late.Thing"]
MODULE_TARGETS = ["os", "subprocess", "verifcanary_late", "verifcanary_late", "cobald.daemon.core.main", "antigravity_not_there"]
TYPED = [("none", '""'), ("bool", '"true"'), ("int", '"1"'), ("long", '"1"'), ("float", '"1.5"'), ("complex", '"1+2j"'),
         ("str", '"s"'), ("unicode", '"s"'), ("bytes", '"YQ=="'), ("list", "[1, 2]"), ("tuple", "[1, 2]"), ("dict", "{a: 1}")]
UNREGISTERED = ["NotRegistered", "not_a_plugin", "LinearControllerX", "Nope", "python/name:os.system", "yaml_tag_test", "VPoolX"]
ARG = ['"true"', "1", "[1]", '"echo canary"', "{a: 1}"]


@st.composite
def evil(draw):
    kind = draw(st.sampled_from(["name", "module", "object", "apply", "apply", "new", "typed", "unregistered"]))
    spelling = draw(st.sampled_from(["!!", "!!", "verbatim", "handle"]))
    if kind == "unregistered":
        tag = draw(st.sampled_from(UNREGISTERED))
        shape = draw(st.sampled_from(["{}", "[]", '""', "{a: 1}", "[1, 2]"]))
        return {"kind": kind, "target": tag, "text": f"!{tag} {shape}", "spelling": "!", "handle": False}
    if kind == "name":
        target = draw(st.sampled_from(FUNC_TARGETS + CLASS_TARGETS))
        suffix, shape = f"python/name:{target}", '""'
    elif kind == "module":
        target = draw(st.sampled_from(MODULE_TARGETS))
        suffix, shape = f"python/module:{target}", '""'
    elif kind == "object":
        target = draw(st.sampled_from(CLASS_TARGETS))
        suffix, shape = f"python/object:{target}", draw(st.sampled_from(["{}", "{a: 1}", "{target: null, interval: 1}"]))
    elif kind == "apply":
        target = draw(st.sampled_from(FUNC_TARGETS + CLASS_TARGETS))
        a = draw(st.sampled_from(ARG))
        suffix = f"python/object/apply:{target}"
        shape = draw(st.sampled_from(["[]", f"[{a}]", f"{{args: [{a}]}}", f"{{args: [{a}], kwds: {{}}}}", f"{{kwds: {{x: {a}}}}}",
                                      f"{{args: [], state: {{a: 1}}}}", f"{{args: [], listitems: [{a}]}}"]))
    elif kind == "new":
        target = draw(st.sampled_from(CLASS_TARGETS + FUNC_TARGETS[:2]))
        a = draw(st.sampled_from(ARG))
        suffix = f"python/object/new:{target}"
        shape = draw(st.sampled_from(["[]", f"[{a}]", f"{{args: [{a}]}}", f"{{state: {{a: 1}}}}"]))
    else:
        t, shape = draw(st.sampled_from(TYPED))
        target = t
        suffix = f"python/{t}"
    if spelling == "!!":
        text = f"!!{suffix} {shape}"
    elif spelling == "verbatim":
        text = f"!<tag:yaml.org,2002:{suffix}> {shape}"
    else:
        text = f"!py!{suffix[len('python/'):]} {shape}"
    return {"kind": kind, "target": target, "text": text, "spelling": spelling, "handle": spelling == "handle"}


POSITIONS = ["tag-arg-key", "element-arg-key", "extra-value", "unknown-section", "pipeline-first", "pipeline-last", "pipeline-middle", "tag-arg", "tag-arg", "tag-arg-seq",
             "pipeline-element-arg", "type-element-arg", "complex-key", "logging", "alias", "alias-in-tag", "top-level-key",
             "root-tag", "merge-value", "merge-seq", "merge-in-tag", "merge-in-element", "merge-nested", "omap-item", "pairs-item", "value-key"]


@st.composite
def document(draw):
    ev = draw(evil())
    pos = draw(st.sampled_from(POSITIONS))
    depth = draw(st.integers(1, 3))
    lazy = draw(st.sampled_from(["VLazy", "VEager"]))
    filler = draw(value_nodes(tags=("VLazy", "VEager"), max_leaves=4))
    return {"evil": ev, "pos": pos, "depth": depth, "tag": lazy, "filler": filler, "flow": draw(st.booleans()),
            "logging": draw(st.booleans()), "merge_shape": draw(st.sampled_from(["own", "{a: 1}", "{a: 1}", "{}", "[{a: 1}]", "[]"])),
            "bystander": draw(st.sampled_from([None, None, "before", "after", "around", "section-first", "scalar-before", "scalar-after"]))}


def wrap(node, depth, flow, in_tag=None):
    """bury node `depth` levels deep in lists/mappings (optionally as arguments of a registered tag)"""
    for d in range(depth):
        node = {"m": [["k%d" % d, node], ["z", {"s": d}]], "flow": flow} if d % 2 == 0 else {"l": [{"s": d}, node], "flow": flow}
    return node


def build(doc):
    ev = {"x": doc["evil"]["text"]}
    pos, depth, flow, tag = doc["pos"], doc["depth"], doc["flow"], doc["tag"]
    pipeline = [{"t": "VDeco", "n": {"m": [["a", doc["filler"]]], "flow": flow}}, {"t": "VPool", "n": None}]
    sections = []
    extra = None
    logging_node = {"m": [["version", {"s": 1}]], "flow": False} if doc["logging"] or pos == "logging" else None
    top_key = None
    if pos == "extra-value":
        extra = wrap(ev, depth - 1, flow)
    elif pos == "unknown-section":
        sections.append(["surprise", wrap(ev, depth - 1, flow)])
    elif pos == "pipeline-first":
        pipeline.insert(0, ev)
    elif pos == "pipeline-last":
        pipeline.append(ev)
    elif pos == "pipeline-middle":
        pipeline.insert(1, ev)
    elif pos == "tag-arg":
        extra = {"t": tag, "n": {"m": [["a", wrap(ev, depth - 1, flow)]], "flow": flow}}
    elif pos == "tag-arg-key":
        # the forbidden tag sits on a mapping *key* of a registered tag's keyword arguments
        extra = {"t": tag, "n": {"mk": [[ev, {"s": 1}], [{"s": "b"}, {"s": 2}]]}}
    elif pos == "element-arg-key":
        pipeline[0] = {"t": "VDeco", "n": {"mk": [[{"s": "a"}, {"s": 1}], [ev, {"s": 2}]]}}
    elif pos == "tag-arg-seq":
        extra = {"t": tag, "n": {"l": [{"s": 1}, wrap(ev, depth - 1, flow)], "flow": flow}}
    elif pos == "pipeline-element-arg":
        pipeline[0] = {"t": "VDeco", "n": {"m": [["a", wrap(ev, depth - 1, flow)]], "flow": flow}}
    elif pos == "type-element-arg":
        pipeline[0] = {"m": [["__type__", {"s": "verifyaml_c05.RecDeco"}], ["a", wrap(ev, depth - 1, flow)]], "flow": flow}
    elif pos == "complex-key":
        extra = wrap({"mk": [[ev, {"s": 1}]]}, depth - 1, flow)
    elif pos == "logging":
        logging_node = {"m": [["version", {"s": 1}], ["x", wrap(ev, depth - 1, flow)]], "flow": False}
    elif pos == "alias":
        extra = {"l": [{"a": "evil", "n": ev} if False else {"x": "&evil " + doc["evil"]["text"]}, {"m": [["again", {"r": "evil"}]], "flow": flow}], "flow": flow}
    elif pos == "alias-in-tag":
        extra = {"l": [{"x": "&evil " + doc["evil"]["text"]}, {"t": tag, "n": {"m": [["a", wrap({"r": "evil"}, depth - 1, flow)]], "flow": flow}}], "flow": False}
    elif pos == "top-level-key":
        top_key = ev
    elif pos in ("omap-item", "pairs-item", "value-key"):
        # constructs whose parts PyYAML uses without looking at their tags: the single-pair mappings that make up an !!omap /
        # !!pairs, and the `=` value of a scalar given as a mapping
        tagtext = doc["evil"]["text"].split(" ", 1)[0]
        if pos == "value-key":
            inner = {"x": "!!str {=: " + tagtext + " text}"}
        else:
            inner = {"x": "!!" + pos.split("-")[0] + " [{a: 1}, " + tagtext + " {b: 2}]"}
        host = {"m": [["a", {"s": 1}], ["typed", inner]], "flow": True}
        extra = {"t": tag, "n": host} if doc.get("merge_shape") in ("{}", "[]") else wrap(host, depth - 1, flow)
    elif pos.startswith("merge"):
        # the forbidden tag sits on a node that is merged into a mapping with `<<` (the YAML merge key)
        mev = ev if doc.get("merge_shape", "own") == "own" else {"x": doc["evil"]["text"].split(" ", 1)[0] + " " + doc["merge_shape"]}
        merged = {"l": [{"m": [["q", {"s": 0}]], "flow": True}, mev], "flow": True} if pos == "merge-seq" else mev
        if pos == "merge-nested":
            merged = {"m": [["q", {"s": 0}], ["<<", mev]], "flow": True}  # a merged mapping that merges the tagged one itself
        host = {"m": [["a", {"s": 1}], ["<<", merged]], "flow": flow}
        if pos == "merge-in-tag":
            extra = {"t": tag, "n": wrap(host, depth - 1, flow) if depth > 1 else host}
        elif pos == "merge-in-element":
            pipeline[0] = {"t": "VDeco", "n": host}
        else:
            extra = wrap(host, depth - 1, flow)
    sections.append(["pipeline", {"l": pipeline, "flow": False}])
    by = doc.get("bystander")
    if by:
        # a harmless anchored node and an alias to it elsewhere in the document: a node reachable twice must not end or
        # shorten whatever walk decides about the tags of the *other* nodes, whichever of them comes first
        anchor = {"x": "&shared 7" if by.startswith("scalar") else "&shared {x: 1}"}
        alias = {"r": "shared"}
        items = {"before": [anchor, alias, extra], "scalar-before": [anchor, alias, extra], "after": [extra, anchor, alias],
                 "scalar-after": [extra, anchor, alias], "around": [anchor, extra, alias], "section-first": [anchor, alias, extra]}[by]
        extra = {"l": [i for i in items if i is not None], "flow": False}
    if extra is not None:
        sections.insert(0 if by == "section-first" else len(sections), ["verifextra", extra])
    if logging_node is not None:
        sections.append(["logging", logging_node])
    root = {"m": sections, "flow": False}
    if pos == "root-tag":
        # the forbidden tag sits on the root node of an otherwise valid configuration
        root = {"t": doc["evil"]["text"].split(" ", 1)[0][1:], "n": root}
    text = emit_document(root, directives="%TAG !py! tag:yaml.org,2002:python/" if doc["evil"]["handle"] else "")
    if top_key is not None:
        text += "? " + doc["evil"]["text"] + "\n: 1\n"
    return text


def run_case(doc) -> Result:
    res = Result()
    live = ensure()
    text = build(doc)
    try:
        yaml.compose(text)  # well-formedness only: composing never constructs anything
    except yaml.YAMLError as e:
        raise HarnessError(f"emitter produced malformed YAML: {e}\n{text}")
    d = tempfile.mkdtemp(prefix="c18-", dir=scratch_dir())
    path = os.path.join(d, "config.yaml")
    with open(path, "w") as f:
        f.write(text)
    try:
        try:
            with load(path) as cfg:
                loaded = repr(cfg)[:300]
            err = None
        except Exception as e:
            loaded, err = None, e
        except BaseException as e:  # SystemExit etc. raised by something that got called
            loaded, err = None, e
            res.fail("base-exception-from-load", f"{type(e).__name__}: {e}\n{text}")
    finally:
        try:
            os.unlink(path)
            os.rmdir(d)
        except OSError:
            pass
    marker = os.path.join(scratch_dir(), "verifcanary_marker")
    if err is None:
        res.fail("document-accepted", f"document with {doc['evil']['text']!r} at {doc['pos']} was loaded without error: {loaded}\n{text}")
    if "verifcanary_late" in sys.modules or os.path.exists(marker):
        res.fail("named-module-imported", f"the document made cobald import verifcanary_late ({doc['evil']['text']!r} at {doc['pos']})\n{text}")
    if live.CALLS:
        res.fail("named-object-called", f"canary called/instantiated: {live.CALLS!r} ({doc['evil']['text']!r} at {doc['pos']})\n{text}")
    ensure()
    res.cls("kind:" + doc["evil"]["kind"], "pos:" + doc["pos"], "spelling:" + doc["evil"]["spelling"],
            "canary:" + str("canary" in str(doc["evil"]["target"])))
    res.nontrivial = doc["pos"] in ("tag-arg-key", "element-arg-key", "tag-arg", "tag-arg-seq", "pipeline-element-arg", "type-element-arg", "complex-key", "alias", "alias-in-tag", "top-level-key") or doc["pos"].startswith("merge") or doc["pos"] in ("omap-item", "pairs-item", "value-key")
    return res


def tests(tier):
    t = [TestDef("documents", run_case, strategy=document(), quick=5000, thorough=150000)]
    if tier == "thorough":
        from engines.fuzz_targets import C18_CORPUS, C18_DICT

        t.append(fuzz_testdef("c18", 30000, dictionary=C18_DICT, corpus=C18_CORPUS, max_len=1024, nontrivial_token=b"!"))
    return t
