"""C05 - A YAML pipeline section builds the chain it describes"""
import functools
import os
import tempfile

import yaml
from hypothesis import strategies as st

from cobald.daemon.core.config import load

from engines.plugin_scratch import scratch_dir, write_entry_points, write_module
from vlib.core import HarnessError, Result, TestDef
from vlib.yamlemit import add_anchors, emit_document, to_python, value_nodes

ID = "C05"
LEVEL = "exploration"
RULE = (
    "Hypothesis-generated YAML documents, written by the harness's own emitter (block and flow styles, quoted/plain scalars, "
    "anchors/aliases) and loaded with the real load(path): a pipeline of 1-8 elements, each a registered !Tag (mapping, sequence or "
    "bare form; registered through a scratch entry-point group on sys.path, i.e. the real discovery path) or a legacy __type__ mapping "
    "with keyword items; argument values are scalars, nested lists/mappings (depth <= 3) and nested lazily / eagerly evaluated tags; "
    "optional extra section (dummy plugin) and logging section; a constructor failure injected at a generated position. Oracle: the "
    "returned pipeline has n objects in order, obj[i].target is obj[i+1], the construction log shows each element once, last to first, "
    "with exactly the configured arguments, and equals the log of the same chain built in Python with >>; with an injected failure "
    "load() raises and no element before the failing position was constructed. Non-trivial = n >= 3 mixing both syntaxes, or nested "
    "tags in arguments, or an injected failure; distinct = canonical JSON of the document spec."
)
ASSUMPTIONS = [
    "__type__ elements carry keyword items only; the key 'pipeline' and '__type__' are not generated inside argument values",
    "the emitter is validated per case against a neutral PyYAML loader (harness error, not a violation, if they disagree)",
]

_SRC = '''
import copy
from cobald.interfaces import Controller, PoolDecorator, Pool
from cobald.daemon.plugins import yaml_tag

LOG = []
EXTRA = []


class Rec:
    def __init__(self, kind, args, kwargs, snapshot=None):
        self.kind, self.args, self.kwargs, self.snapshot = kind, args, kwargs, snapshot
    def __eq__(self, other):
        return isinstance(other, Rec) and (self.kind, list(self.args), dict(self.kwargs)) == (other.kind, list(other.args), dict(other.kwargs))
    def __repr__(self):
        return "Rec(%r, %r, %r)" % (self.kind, list(self.args), dict(self.kwargs))


def lazy_helper(*args, **kwargs):
    return Rec("VLazy", args, kwargs)


@yaml_tag(eager=True)
def eager_helper(*args, **kwargs):
    return Rec("VEager", args, kwargs, snapshot=(copy.deepcopy(list(args)), copy.deepcopy(dict(kwargs))))


def _record(self, target, args, kwargs):
    LOG.append((type(self).__name__, target, args, kwargs, self))
    if kwargs.get("fail"):
        raise {"TypeError": TypeError, "KeyError": KeyError, "RuntimeError": RuntimeError, "AssertionError": AssertionError,
               "LookupError": LookupError, "AttributeError": AttributeError, "StopIteration": StopIteration, "OSError": OSError}.get(kwargs["fail"], ValueError)("injected constructor failure")


class RecCtrl(Controller):
    def __init__(self, target, *args, **kwargs):
        super().__init__(target)
        _record(self, target, args, kwargs)


class RecDeco(PoolDecorator):
    def __init__(self, target, *args, **kwargs):
        super().__init__(target)
        _record(self, target, args, kwargs)


class RecDeco2(RecDeco):
    pass


class RecPool(Pool):
    supply = demand = utilisation = allocation = 0
    def __init__(self, *args, **kwargs):
        _record(self, None, args, kwargs)


class RecPoolSized(RecPool):
    """a pool that is a sized container (like a composite) and currently empty: it is falsy"""
    def __len__(self):
        return 0


class RecDecoSized(RecDeco):
    def __len__(self):
        return len(self.target) if hasattr(self.target, "__len__") else 0


class Site:
    """classes grouped below another class: dotted names with more than one attribute below the module"""
    Deco = RecDeco2
    class Inner:
        Pool = RecPool
        Ctrl = RecCtrl


def extra_digest(content):
    EXTRA.append(content)
    return {"extra": content}
'''
MOD = "verifyaml_c05"
CLASSES = {"VCtrl": "RecCtrl", "VDeco": "RecDeco", "VDeco2": "RecDeco2", "VPool": "RecPool", "VPoolSized": "RecPoolSized", "VDecoSized": "RecDecoSized"}
NESTED = {"VCtrl": "Site.Inner.Ctrl", "VDeco2": "Site.Deco", "VPool": "Site.Inner.Pool"}  # other dotted names of the same classes
_ready = False


def ensure():
    global _ready
    if not _ready:
        write_module(MOD + ".py", _SRC)
        write_entry_points("verif_c05", {
            "cobald.config.yaml_constructors": {**{t: f"{MOD}:{c}" for t, c in CLASSES.items()},
                                                "VLazy": f"{MOD}:lazy_helper", "VEager": f"{MOD}:eager_helper"},
            "cobald.config.sections": {"verifextra": f"{MOD}:extra_digest"},
        })
        _ready = True
    return __import__(MOD)


values = value_nodes(tags=("VLazy", "VEager"), max_leaves=6)
KW = ["a", "b", "c", "interval", "name", "rate"]


@st.composite
def element(draw, cls):
    form = draw(st.sampled_from(["map", "map", "seq", "bare", "type", "type"]))
    e = {"cls": cls, "form": form, "args": [], "kwargs": [], "flow": draw(st.booleans()),
         "nested_name": form == "type" and cls in NESTED and draw(st.booleans())}
    if form == "seq":
        e["args"] = draw(st.lists(values, max_size=3))
    elif form in ("map", "type"):
        e["kwargs"] = [[k, v] for k, v in draw(st.dictionaries(st.sampled_from(KW), values, max_size=3)).items()]
    return e


@st.composite
def document(draw):
    n = draw(st.integers(1, 8))
    elems = []
    for i in range(n):
        if i == n - 1:
            cls = draw(st.sampled_from(["VPool", "VPool", "VPool", "VPoolSized"]))
        elif i == 0 and draw(st.booleans()):
            cls = "VCtrl"
        else:
            cls = draw(st.sampled_from(["VDeco", "VDeco2", "VDeco", "VDeco2", "VDecoSized"]))
        elems.append(draw(element(cls)))
    fail_at = None
    if draw(st.sampled_from([False, False, False, True])):
        cand = [i for i, e in enumerate(elems) if e["form"] in ("map", "type")]
        if cand:
            fail_at = draw(st.sampled_from(cand))
            kind = draw(st.sampled_from(["ValueError", "TypeError", "KeyError", "RuntimeError", "AssertionError", "LookupError", "AttributeError", "StopIteration", "OSError"]))
            elems[fail_at]["kwargs"] = [kv for kv in elems[fail_at]["kwargs"] if kv[0] != "fail"] + [["fail", {"s": kind}]]
    doc = {"elems": elems, "fail_at": fail_at, "flow_pipeline": draw(st.integers(0, 5)) == 0,
           "extra": draw(st.one_of(st.none(), values)), "logging": draw(st.integers(0, 4)) == 0,
           "order": draw(st.permutations(["pipeline", "extra", "logging"]))}
    # anchors/aliases: only inside argument values (never on elements, sections or the logging mapping), shared over
    # the whole document in emission order so that a later value may alias a container defined in an earlier one
    doc["aliases"] = draw(st.booleans())
    if doc["aliases"]:
        counter, defined = [0], []
        for name in doc["order"]:
            if name == "pipeline":
                for e in elems:
                    e["args"] = [add_anchors(v, draw, counter, defined) for v in e["args"]]
                    e["kwargs"] = [[k, v if k == "fail" else add_anchors(v, draw, counter, defined)] for k, v in e["kwargs"]]
            elif name == "extra" and doc["extra"] is not None:
                doc["extra"] = add_anchors(doc["extra"], draw, counter, defined)
        doc["aliases"] = bool(defined)
    doc["root"] = build_root(doc)
    return doc


def element_node(e):
    if e["form"] == "type":
        return {"m": [["__type__", {"s": f"{MOD}.{NESTED[e['cls']] if e.get('nested_name') else CLASSES[e['cls']]}"}]] + e["kwargs"], "flow": e["flow"]}
    if e["form"] == "bare":
        return {"t": e["cls"], "n": None}
    if e["form"] == "seq":
        return {"t": e["cls"], "n": {"l": e["args"], "flow": e["flow"]}}
    return {"t": e["cls"], "n": {"m": e["kwargs"], "flow": e["flow"]}}


def build_root(doc):
    sections = []
    for name in doc["order"]:
        if name == "pipeline":
            sections.append(["pipeline", {"l": [element_node(e) for e in doc["elems"]], "flow": doc["flow_pipeline"]}])
        elif name == "extra" and doc["extra"] is not None:
            sections.append(["verifextra", doc["extra"]])
        elif name == "logging" and doc["logging"]:
            sections.append(["logging", {"m": [["version", {"s": 1}]], "flow": False}])
    return {"m": sections, "flow": False}


class NeutralLoader(yaml.SafeLoader):
    pass


def _neutral(loader, suffix, node):
    if isinstance(node, yaml.MappingNode):
        return ("TAG", suffix, "map", loader.construct_mapping(node, deep=True))
    if isinstance(node, yaml.SequenceNode):
        return ("TAG", suffix, "seq", loader.construct_sequence(node, deep=True))
    return ("TAG", suffix, "bare", None)


NeutralLoader.add_multi_constructor("!", _neutral)


def neutral_factory(tag, form, args, kwargs):
    return ("TAG", tag, form, kwargs if form == "map" else args if form == "seq" else None)


def normalise(log):
    serial, out = {}, []
    for name, target, args, kwargs, obj in log:
        out.append((name, serial.get(id(target), None), list(args), dict(kwargs)))
        serial[id(obj)] = len(out) - 1
    return out


def has_tag(node):
    if "t" in node:
        return True
    if "a" in node:
        return has_tag(node["n"])
    if "l" in node:
        return any(has_tag(i) for i in node["l"])
    if "m" in node:
        return any(has_tag(v) for _k, v in node["m"])
    return False


def run_case(doc) -> Result:
    res = Result()
    mod = ensure()
    text = emit_document(doc["root"])
    # ---- emitter self-check against a neutral loader
    try:
        neutral = yaml.load(text, Loader=NeutralLoader)
    except yaml.YAMLError as e:
        raise HarnessError(f"emitter produced invalid YAML: {e}\n{text}")
    want_neutral = to_python(doc["root"], neutral_factory)
    if neutral != want_neutral:
        raise HarnessError(f"emitter/neutral loader mismatch:\n{text}\n{neutral!r}\n{want_neutral!r}")
    # ---- expected values and the same chain built in Python with >>
    def factory(tag, form, args, kwargs):
        if tag in ("VLazy", "VEager"):
            return mod.Rec(tag, args, kwargs)
        return ("ELEMENT", tag, form, args, kwargs)

    want_root = to_python(doc["root"], factory)
    want_elems = want_root["pipeline"]
    n = len(want_elems)
    specs = []
    for w in want_elems:
        if isinstance(w, dict):  # __type__ form
            cls = functools.reduce(getattr, w["__type__"].split(".")[1:], mod)
            specs.append((cls, [], {k: v for k, v in w.items() if k != "__type__"}))
        else:
            _e, tag, _form, args, kwargs = w
            specs.append((getattr(mod, CLASSES[tag]), list(args), dict(kwargs)))
    mod.LOG.clear()
    py_error = None
    try:
        chain = specs[-1][0].s(*specs[-1][1], **specs[-1][2])
        for cls, args, kwargs in reversed(specs[:-1]):
            chain = cls.s(*args, **kwargs) >> chain
        if n == 1:
            chain = chain.__construct__()
    except Exception as e:
        py_error = e
    py_log = normalise(mod.LOG)
    # ---- the real thing
    mod.LOG.clear()
    mod.EXTRA.clear()
    d = tempfile.mkdtemp(prefix="c05-", dir=scratch_dir())
    path = os.path.join(d, "config.yaml")
    with open(path, "w") as f:
        f.write(text)
    try:
        try:
            with load(path) as cfg:
                result = {plugin.section: content for plugin, content in cfg.items()}
            err = None
        except Exception as e:  # any exception from loading counts as "surfaced"
            result, err = None, e
    finally:
        try:
            os.unlink(path)
            os.rmdir(d)
        except OSError:
            pass
    got_log = normalise(mod.LOG)
    forms = "".join({"map": "M", "seq": "S", "bare": "B", "type": "t"}[e["form"]] for e in doc["elems"])
    mixed = any(e["form"] == "type" for e in doc["elems"]) and any(e["form"] != "type" for e in doc["elems"])
    nested = any(has_tag(v) for e in doc["elems"] for v in e["args"] + [kv[1] for kv in e["kwargs"]])
    res.cls("falsy-element:" + str(any(e["cls"].endswith("Sized") for e in doc["elems"])))
    res.cls("typed-yaml-values:" + str("!!binary" in text or "!!set" in text or "!!omap" in text or "!!pairs" in text),
            "nested-type-name:" + str(any(e.get("nested_name") for e in doc["elems"])))
    res.cls("n:%d" % n, "mixed:" + str(mixed), "nested-tags:" + str(nested), "fail:" + str(doc["fail_at"] is not None),
            "forms:" + forms[:4])
    res.nontrivial = (n >= 3 and mixed) or nested or doc["fail_at"] is not None
    if doc["fail_at"] is not None:
        if py_error is None:
            raise HarnessError("injected failure did not fail the Python chain")
        if err is None:
            res.fail("constructor-error-swallowed", f"element {doc['fail_at']} raises in its constructor but load() returned {result!r}\n{text}")
            return res
        built = [entry for entry in got_log]
        # last-to-first: only elements behind the failing position (and the failing one) may have been constructed
        if len(built) > n - doc["fail_at"]:
            res.fail("constructed-before-failure-position", f"failure at position {doc['fail_at']} of {n}, yet {len(built)} constructor calls: {[b[0] for b in built]}\n{text}")
        if got_log != py_log:
            res.fail("failure-log-differs", f"constructor calls {got_log!r} differ from the Python chain's {py_log!r}\n{text}")
        return res
    if err is not None:
        res.fail("valid-document-rejected", f"{type(err).__name__}: {err}\n{text}")
        return res
    pipeline = result.get("pipeline")
    if not isinstance(pipeline, list) or len(pipeline) != n:
        res.fail("pipeline-length", f"pipeline section gave {pipeline!r}, expected {n} objects\n{text}")
        return res
    for i, (obj, (cls, _a, _k)) in enumerate(zip(pipeline, specs)):
        if type(obj) is not cls:
            res.fail("element-type", f"position {i}: {type(obj).__name__}, configured {cls.__name__}\n{text}")
            return res
        if i + 1 < n and obj.target is not pipeline[i + 1]:
            res.fail("target-link", f"position {i}: target is {obj.target!r}, not the next pipeline object\n{text}")
            return res
    if got_log != py_log:
        res.fail("construction-log-differs", f"YAML built {got_log!r}, Python >> chain {py_log!r}\n{text}")
        return res
    want_log = [(specs[i][0].__name__, (n - 2 - i) if i < n - 1 else None, specs[i][1], specs[i][2]) for i in reversed(range(n))]
    if got_log != want_log:
        res.fail("construction-log-not-as-configured", f"constructed {got_log!r}, configured {want_log!r}\n{text}")
        return res
    # eager tags must have seen complete arguments at call time (an alias may legitimately refer to a node that
    # was constructed lazily earlier in the document, so this is only judged for alias-free documents)
    def walk(v):
        if isinstance(v, mod.Rec):
            if v.kind == "VEager" and (list(v.snapshot[0]), dict(v.snapshot[1])) != (list(v.args), dict(v.kwargs)):
                res.fail("eager-tag-incomplete", f"eager tag saw {v.snapshot!r} at call time, final {v!r}\n{text}")
            for x in list(v.args) + list(v.kwargs.values()):
                walk(x)
        elif isinstance(v, dict):
            for x in v.values():
                walk(x)
        elif isinstance(v, (list, tuple)):
            for x in v:
                walk(x)

    for _n, _t, args, kwargs in got_log:
        if not doc.get("aliases"):
            walk(args)
            walk(kwargs)
    if doc["extra"] is not None:
        want_extra = want_root["verifextra"]
        if result.get("verifextra") != {"extra": want_extra} or mod.EXTRA != [want_extra]:
            res.fail("extra-section", f"extra section digested {mod.EXTRA!r}, expected once {want_extra!r}\n{text}")
    return res


def tests(tier):
    return [TestDef("documents", run_case, strategy=document(), quick=4000, thorough=120000)]
