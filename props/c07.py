"""C07 - Composite pools conserve demand and aggregate their children faithfully"""
import math
from fractions import Fraction

from hypothesis import strategies as st

from cobald.composite.uniform import UniformComposite
from cobald.composite.weighted import WeightedComposite

from vlib.core import Result, TestDef
from vlib.pools import StatePool

ID = "C07"
LEVEL = "exploration"
RULE = (
    "Hypothesis histories over UniformComposite and WeightedComposite(weight=supply|utilisation|allocation): "
    "0-12 children whose supply/utilisation/allocation come from profiles {all zero, single non-zero, all equal, "
    "log-uniform 1e-6..1e9, small ints}; ops {write D>=0, change a child's attribute, append/remove/replace children, "
    "read}. After every op the children's demands and the composite's four properties are recomputed from the children "
    "(math.fsum / Fraction) and compared. Non-trivial = a write with >= 2 children of unequal weight, or a zero-total-weight "
    "fallback, or children added/removed between two writes; distinct = distinct canonical JSON of the case."
)
ASSUMPTIONS = [
    "magnitudes limited to {0} + [1e-6, 1e9] (plus a 'tiny' profile scaling the children's supplies by 1e-300 with fitness values in {0} + [0.25, 2], still normal floats) so that D*w and sums neither overflow nor become subnormal",
    "sum of shares equals D within 1e-9*max(1,D); shares proportional within relative 1e-9",
    "mean within [min,max] of the children within relative 1e-9",
]

ATTRS = ("supply", "utilisation", "allocation")


def magnitude():
    return st.one_of(
        st.just(0),
        st.just(0.0),
        st.integers(0, 20),
        st.integers(-6, 9).flatmap(lambda e: st.floats(1.0, 9.999).map(lambda m: m * 10.0 ** e)),
        st.floats(1e-6, 1),
    )


@st.composite
def child(draw, profile="free", common=None):
    c = {}
    for a in ATTRS:
        if profile == "zero":
            c[a] = 0
        elif profile == "equal":
            c[a] = common[a]
        else:
            c[a] = draw(magnitude())
    c["demand"] = draw(st.integers(0, 50))
    return c


@st.composite
def case(draw):
    kind = draw(st.sampled_from(["uniform", "supply", "utilisation", "allocation"]))
    n = draw(st.integers(0, 12))
    profile = draw(st.sampled_from(["free", "free", "zero", "equal", "single", "tiny"]))
    common = {a: draw(magnitude()) for a in ATTRS}
    if profile == "single":
        children = [draw(child("zero")) for _ in range(n)]
        if n:
            i = draw(st.integers(0, n - 1))
            children[i] = draw(child("free"))
    elif profile == "tiny":
        # tiny (but normal, not subnormal) magnitudes: weights around 1e-300 with ordinary demands
        children = [draw(child("free")) for _ in range(n)]
        for c in children:
            c["supply"] = c["supply"] * 1e-300  # only the supply: products of two tiny attributes would underflow
            for a in ("utilisation", "allocation"):  # keep supply*fitness products normal floats
                c[a] = draw(st.sampled_from([0, 0.25, 0.5, 1, 1.0, 2]))
    else:
        children = [draw(child(profile, common)) for _ in range(n)]
    D = st.one_of(st.just(0), st.integers(0, 1000), st.floats(1e-6, 1e9), st.floats(1e-6, 10))
    if profile != "tiny":
        # integers that no float represents exactly: the composite must read back the very value ("exactly D")
        D = st.one_of(D, D, D, D, st.integers(2**53 + 1, 2**62).filter(lambda v: float(v) != v))
    if profile == "tiny":
        D = st.one_of(D, st.sampled_from([1e12, 1e15, 3e14]))  # large demands over tiny weights: D/W alone would overflow, D*w/W does not
    op = st.one_of(
        st.tuples(st.just("w"), D),
        st.tuples(st.just("w"), D),
        st.tuples(st.just("set"), st.integers(0, 11), st.sampled_from(ATTRS), magnitude()),
        st.tuples(st.just("zero"), st.sampled_from(ATTRS)),
        st.tuples(st.just("add"), child(), st.sampled_from(["append", "assign"])),
        st.tuples(st.just("del"), st.integers(0, 11), st.sampled_from(["remove", "assign"])),
        st.tuples(st.just("read")),
    )
    ops = [list(o) for o in draw(st.lists(op, min_size=1, max_size=25))]
    return {"kind": kind, "children": children, "ops": ops}


def mk(c):
    return StatePool(demand=c["demand"], supply=c["supply"], utilisation=c["utilisation"], allocation=c["allocation"])


def close(a, b, rel, absol=0.0):
    return abs(a - b) <= max(rel * max(abs(a), abs(b)), absol)


def check_aggregates(res, comp, kids, kind, tag):
    n = len(kids)
    sup = math.fsum(k.supply for k in kids)
    got = comp.supply
    if not close(got, sup, 1e-12 * max(1, n)):
        res.fail("supply-not-sum", f"{tag}: composite.supply={got!r}, sum over children={sup!r} ({[k.supply for k in kids]})")
    weights = None if kind == "uniform" else [getattr(k, kind) for k in kids]
    total_zero = weights is not None and all(w == 0 for w in weights)
    for attr in ("utilisation", "allocation"):
        got = getattr(comp, attr)
        vals = [getattr(k, attr) for k in kids]
        if n == 0:
            if got != 1.0:
                res.fail("fallback-no-children", f"{tag}: {attr} without children is {got!r}, documented 1.0")
            res.cls("fallback:no-children")
            continue
        if total_zero:
            want = 0.0 if sup > 0 else 1.0
            if got != want:
                res.fail("fallback-zero-weight", f"{tag}: {attr} with all weights ({kind}) zero and supply {sup} is {got!r}, documented {want}")
            res.cls("fallback:zero-weight-" + ("supply" if sup > 0 else "nosupply"))
            continue
        lo, hi = min(vals), max(vals)
        tol = 1e-9 * max(abs(lo), abs(hi))
        if not (lo - tol <= got <= hi + tol):
            res.fail("fitness-outside-children-range", f"{tag}: composite.{attr}={got!r} outside [{lo!r}, {hi!r}] of children {vals} (weights {weights})")
        # faithful aggregation: (weighted) mean
        if weights is None:
            want = math.fsum(vals) / n
        else:
            W = math.fsum(weights)
            want = math.fsum(Fraction(v) * Fraction(w) for v, w in zip(vals, weights)) / Fraction(W) if W else None
            want = float(want)
        if not close(got, want, 1e-9):
            res.fail("fitness-not-mean", f"{tag}: composite.{attr}={got!r}, (weighted) mean of children is {want!r}")


def check_write(res, comp, kids, kind, D, tag):
    n = len(kids)
    if comp.demand != D:
        res.fail("demand-readback", f"{tag}: wrote {D!r}, composite reads {comp.demand!r}")
    if n == 0:
        return False
    shares = [k.demand for k in kids]
    tol = 1e-9 * max(1.0, D)
    total = math.fsum(shares)
    if abs(total - D) > tol:
        res.fail("demand-not-conserved", f"{tag}: wrote {D!r} to {n} children, shares {shares} sum to {total!r}")
    weights = None if kind == "uniform" else [getattr(k, kind) for k in kids]
    if weights is None or all(w == 0 for w in weights):
        want = [Fraction(D) / n] * n
        unequal = False
    else:
        W = sum(Fraction(w) for w in weights)
        want = [Fraction(D) * Fraction(w) / W for w in weights]
        unequal = len(set(weights)) > 1
    for i, (s, w) in enumerate(zip(shares, want)):
        w = float(w)
        if not close(s, w, 1e-9, 1e-300):
            res.fail("share-not-proportional", f"{tag}: child {i} got {s!r}, proportional share is {w!r} (D={D!r}, weights={weights})")
            break
        if not (-tol <= s <= D + tol):
            res.fail("share-out-of-range", f"{tag}: child {i} got {s!r} outside [0, {D!r}]")
            break
    if weights is not None and all(w == 0 for w in weights):
        res.cls("write:zero-weight-uniform-fallback")
        return True
    return n >= 2 and unequal


def run_case(spec) -> Result:
    res = Result()
    kind = spec["kind"]
    kids = [mk(c) for c in spec["children"]]
    try:
        comp = UniformComposite(*kids) if kind == "uniform" else WeightedComposite(*kids, weight=kind)
    except Exception as e:
        res.fail("ctor", f"{type(e).__name__}: {e}")
        return res
    init = sum(c["demand"] for c in spec["children"])
    if comp.demand != init:
        res.fail("initial-demand", f"composite starts with demand {comp.demand!r}, children sum to {init!r}")
    nt = False
    changed_since_write = False
    wrote = False
    lastD = None
    try:
        for i, o in enumerate(spec["ops"]):
            tag = f"op{i}:{o[0]}"
            if o[0] == "w":
                D = o[1]
                comp.demand = D
                lastD = D
                if check_write(res, comp, kids, kind, D, tag):
                    nt = True
                if wrote and changed_since_write and kids:
                    nt = True
                    res.cls("write-after-membership-change")
                wrote, changed_since_write = True, False
            elif o[0] == "set":
                if kids:
                    setattr(kids[o[1] % len(kids)], o[2], o[3])
            elif o[0] == "zero":
                for k in kids:
                    setattr(k, o[1], 0)
            elif o[0] == "add":
                k = mk(o[1])
                if o[2] == "append":
                    comp.children.append(k)
                    kids.append(k)
                else:
                    kids = kids + [k]
                    comp.children = list(kids)
                changed_since_write = True
            elif o[0] == "del":
                if kids:
                    k = kids[o[1] % len(kids)]
                    if o[2] == "remove":
                        comp.children.remove(k)
                        kids.remove(k)
                    else:
                        kids = [x for x in kids if x is not k]
                        comp.children = list(kids)
                    changed_since_write = True
            if [id(x) for x in comp.children] != [id(x) for x in kids]:
                res.fail("children-list", f"{tag}: composite.children differs from the children given")
            if lastD is not None and comp.demand != lastD:
                res.fail("demand-readback", f"{tag}: composite.demand={comp.demand!r} after writing {lastD!r}")
            check_aggregates(res, comp, kids, kind, tag)
            if res.violations:
                return res
    except Exception as e:
        res.fail("unexpected-exception", f"{type(e).__name__}: {e}")
        return res
    res.cls("kind:" + kind, "n:" + str(len(spec["children"])))
    res.nontrivial = nt
    return res


def tests(tier):
    return [TestDef("history", run_case, strategy=case(), quick=8000, thorough=300000)]
