"""C16 - Decorators are transparent except for what they are meant to change"""
import itertools
import logging
import warnings

from hypothesis import strategies as st

from cobald.decorator.buffer import Buffer
from cobald.decorator.logger import Logger
from cobald.decorator.standardiser import Standardiser
from cobald.interfaces import PoolDecorator

from vlib.core import Result, TestDef
from vlib.pools import StatePool
from vlib.strategies import dyadic

ID = "C16"
LEVEL = "exploration"
RULE = (
    "Hypothesis-generated stacks (depth 0-6, any order) of a bare PoolDecorator subclass, Logger, Standardiser (default and "
    "generated limits) and Buffer over a recording pool x histories of reads, demand writes and pool state changes; Logger "
    "names (None / dotted), levels 1-50 and %-templates over the documented fields, the deprecated 'consumption' and unknown "
    "field names. Oracle: every layer reports the pool's supply/utilisation/allocation after every op; plain+Logger stacks "
    "pass demand reads and writes through by identity; a capturing handler on each Logger's logger checks one record per write, "
    "level, name, args mapping = state before the write, and that the target was not yet written at emission time; unknown "
    "template fields must be rejected by the constructor and known ones accepted. Non-trivial = depth >= 2 with >= 1 Logger and "
    ">= 1 write, or a template with an unknown/deprecated field; distinct = canonical JSON of the case."
)
ASSUMPTIONS = [
    "a Logger below a Buffer receives no write outside Buffer.run (C09 covers run); below a Standardiser exactly one per write",
    "the default logger name (None) is the target's class qualname as implemented and tested upstream",
]

KNOWN = ["value", "demand", "supply", "utilisation", "allocation"]
UNKNOWN = ["dummy_field", "Value", "demand_", "name", "level", "pool", "consumptions", "message", "targets", "x",
           "target.demand", "new-demand", "old demand", "pool:supply", "", "value ", "1", "demand,supply"]
_counter = itertools.count()


class Plain(PoolDecorator):
    """A decorator that changes nothing: exercises the PoolDecorator base itself"""


@st.composite
def template(draw):
    parts = draw(st.lists(st.tuples(st.one_of(st.sampled_from(KNOWN), st.sampled_from(KNOWN), st.just("target"),
                                              st.just("consumption"), st.sampled_from(UNKNOWN)),
                                    st.sampled_from(["s", "s", ".2f", "r", "d", "x", "c", "#o"])), min_size=0, max_size=5))
    text = draw(st.sampled_from(["", "demand ", "x=", "100%% "]))
    fields = []
    names_unknown = any(name in UNKNOWN for name, _code in parts)
    for name, code in parts:
        # conversions that do not fit a field's kind of value (integer-only codes, a number code for the target) make the
        # unchanged constructor fail too - the statement is silent about them, so they are only generated next to an unknown
        # field, where rejection is required in any case (formatting stops at the first problem: the unknown name may hide behind)
        if not names_unknown and (code in ("x", "c", "#o") or (name == "target" and code in (".2f", "d"))):
            code = "s"
        fields.append([name, code])
    return {"prefix": text, "fields": fields}


def render_template(t):
    return t["prefix"] + " ".join("%s=%%(%s)%s" % (n, n, c) for n, c in t["fields"])


layer = st.one_of(
    st.fixed_dictionaries({"k": st.just("plain")}),
    st.fixed_dictionaries({"k": st.just("logger"),
                           "name": st.one_of(st.none(), st.sampled_from(["", "root"]), st.lists(st.sampled_from(["a", "b", "cobald", "monitor", "x y", "ä"]), min_size=1, max_size=3).map(".".join)),
                           "level": st.integers(1, 50),
                           "msg": st.one_of(st.none(), template())}),
    st.fixed_dictionaries({"k": st.just("std"), "min": st.one_of(st.none(), st.integers(-5, 20)),
                           "span": st.one_of(st.none(), st.integers(0, 60)), "gran": st.sampled_from([1, 1, 2, 5, 0.5]),
                           "surplus": st.one_of(st.none(), st.integers(1, 30)), "backlog": st.one_of(st.none(), st.integers(1, 30))}),
    st.fixed_dictionaries({"k": st.just("buffer"), "window": st.sampled_from([10.0, 1, 0.5])}),
)

num = st.one_of(st.integers(-5, 100), dyadic(-5, 100), st.floats(0, 1e6))
op = st.one_of(
    st.tuples(st.just("w"), num),
    st.tuples(st.just("w"), num),
    st.tuples(st.just("inc")),
    st.tuples(st.just("r")),
    st.tuples(st.just("state"), st.one_of(st.integers(0, 100), dyadic(0, 100)), dyadic(0, 2, 4), dyadic(0, 2, 4)),
    st.tuples(st.just("pooldemand"), num),
)

case = st.fixed_dictionaries({
    "layers": st.lists(layer, min_size=0, max_size=6),
    "ops": st.lists(op, min_size=1, max_size=20).map(lambda l: [list(o) for o in l]),
    "demand0": st.integers(0, 50),
})


class Capture(logging.Handler):
    def __init__(self, sink, layer_obj, pool):
        super().__init__(level=1)
        self.sink, self.layer_obj, self.pool = sink, layer_obj, pool

    def emit(self, record):
        if record.args is None or not isinstance(record.args, dict) or record.args.get("target") is not self.layer_obj.target:
            return  # a record of another Logger layer sharing the same logger name
        self.sink.append({"level": record.levelno, "name": record.name, "args": record.args, "record": record,
                          "target_demand_at_emit": self.layer_obj.target.demand, "pool_writes_at_emit": len(self.pool.writes)})


def template_valid(t):
    return all(n in KNOWN or n in ("target", "consumption") for n, _c in t["fields"])


def run_case(spec) -> Result:
    res = Result()
    uid = next(_counter)
    pool = StatePool(demand=spec["demand0"], supply=3, utilisation=0.5, allocation=0.75)
    objs = []  # bottom-up construction
    target = pool
    cleanup = []
    layers = spec["layers"]
    nt_template = False
    try:
        for li in reversed(range(len(layers))):
            L = layers[li]
            if L["k"] == "plain":
                obj = Plain(target)
            elif L["k"] == "buffer":
                obj = Buffer(target, window=L["window"])
            elif L["k"] == "std":
                kw = {"granularity": L["gran"]}
                if L["min"] is not None:
                    kw["minimum"] = L["min"]
                    if L["span"] is not None:
                        kw["maximum"] = L["min"] + L["span"]
                if L["surplus"] is not None:
                    kw["surplus"] = L["surplus"]
                if L["backlog"] is not None:
                    kw["backlog"] = L["backlog"]
                obj = Standardiser(target, **kw)
            else:
                # "" and "root" address the root logger, as everywhere in the logging module
                name = L["name"] if L["name"] in (None, "", "root") else f"verif.c16.n{uid}.{L['name']}"
                kw = {"name": name, "level": L["level"]}
                valid = True
                if L["msg"] is not None:
                    kw["message"] = render_template(L["msg"])
                    valid = template_valid(L["msg"])
                    if not valid or any(n == "consumption" for n, _ in L["msg"]["fields"]):
                        nt_template = True
                with warnings.catch_warnings():
                    warnings.simplefilter("ignore")
                    try:
                        obj = Logger(target, **kw)
                    except Exception as e:
                        if valid:
                            res.fail("logger-rejects-valid-template", f"template {kw.get('message')!r} over documented fields rejected: {type(e).__name__}: {e}")
                        else:
                            res.cls("template:unknown-field-rejected")
                            res.nontrivial = True
                        return res
                if not valid:
                    res.fail("logger-accepts-unknown-field", f"template {kw['message']!r} names an unknown field but Logger was constructed")
                    return res
                want_name = "root" if name in ("", "root") else name if name is not None else type(target).__qualname__
                if obj.name != want_name:
                    res.fail("logger-name", f"Logger.name={obj.name!r}, configured {want_name!r}")
                    return res
                lg = logging.getLogger(want_name)
                sink = []
                h = Capture(sink, obj, pool)
                old = (lg.level, lg.propagate)
                lg.setLevel(1)
                lg.propagate = False
                lg.addHandler(h)
                cleanup.append((lg, h, old))
                obj._verif = {"sink": sink, "name": want_name, "level": L["level"], "index": li}
            objs.append(obj)
            target = obj
        objs.reverse()  # now top to bottom, aligned with `layers`
        top = objs[0] if objs else pool
        transparent = all(L["k"] in ("plain", "logger") for L in layers)
        writes = 0
        retained = []
        for i, o in enumerate(spec["ops"]):
            tag = f"op{i}:{o[0]} stack={[L['k'] for L in layers]}"
            if o[0] == "state":
                pool.supply, pool.utilisation, pool.allocation = o[1], o[2], o[3]
            elif o[0] == "pooldemand":
                pool._demand = o[1]
            elif o[0] == "r":
                got = top.demand
                if transparent and got is not pool._demand and got != pool._demand:
                    res.fail("demand-read-not-transparent", f"{tag}: read {got!r}, pool has {pool._demand!r}")
            elif o[0] in ("w", "inc"):
                before = {}
                for li, obj in enumerate(objs):
                    if layers[li]["k"] == "logger":
                        t = obj.target
                        before[li] = {"demand": t.demand, "supply": t.supply, "utilisation": t.utilisation, "allocation": t.allocation}
                        obj._verif["sink"].clear()
                nwrites = len(pool.writes)
                if o[0] == "w":
                    v = o[1]
                    top.demand = v
                else:
                    cur = top.demand
                    v = cur + 1
                    top.demand = v
                writes += 1
                if transparent:
                    if len(pool.writes) != nwrites + 1 or pool.writes[-1] is not v and (pool.writes[-1] != v or type(pool.writes[-1]) is not type(v)):
                        res.fail("demand-write-not-transparent", f"{tag}: wrote {v!r}, pool received {pool.writes[nwrites:]!r}")
                for li, obj in enumerate(objs):
                    if layers[li]["k"] != "logger":
                        continue
                    above = [L["k"] for L in layers[:li]]
                    sink = obj._verif["sink"]
                    want_n = 0 if "buffer" in above else 1
                    if len(sink) != want_n:
                        res.fail("logger-record-count", f"{tag}: Logger at depth {li} emitted {len(sink)} records for one write, expected {want_n}")
                        continue
                    if not want_n:
                        continue
                    rec = sink[0]
                    b = before[li]
                    if rec["level"] != obj._verif["level"] or rec["name"] != obj._verif["name"]:
                        res.fail("logger-level-or-name", f"{tag}: record level/name {rec['level']}/{rec['name']!r}, configured {obj._verif['level']}/{obj._verif['name']!r}")
                    args = rec["args"]
                    if all(k in ("plain", "logger") for k in above):
                        if args.get("value") is not v and (args.get("value") != v or type(args.get("value")) is not type(v)):
                            res.fail("logger-value", f"{tag}: record carries value={args.get('value')!r}, written {v!r}")
                    for k in ("demand", "supply", "utilisation", "allocation"):
                        if k not in args or args[k] != b[k]:
                            res.fail("logger-field-" + k, f"{tag}: record carries {k}={args.get(k)!r}, target had {b[k]!r} before the write")
                    if rec["target_demand_at_emit"] != b["demand"] or rec["pool_writes_at_emit"] != nwrites:
                        res.fail("logger-after-write", f"{tag}: at emission the target already had demand {rec['target_demand_at_emit']!r} (before: {b['demand']!r}); pool writes {rec['pool_writes_at_emit']} vs {nwrites}")
                    if all(k in ("plain", "logger") for k in above):
                        retained.append((rec["record"], dict(b, value=v), tag))
                    else:
                        retained.append((rec["record"], dict(b), tag))
                    try:
                        with warnings.catch_warnings():
                            warnings.simplefilter("ignore")
                            rec["record"].getMessage()
                    except Exception as e:
                        res.fail("logger-message-unformattable", f"{tag}: {type(e).__name__}: {e} for template {obj.message!r}")
            # transparency of supply / utilisation / allocation through every layer
            for li, obj in enumerate(objs):
                for attr in ("supply", "utilisation", "allocation"):
                    got, want = getattr(obj, attr), getattr(pool, attr)
                    if got is not want and (got != want or type(got) is not type(want)):
                        res.fail("passthrough-" + attr, f"{tag}: layer {li} ({layers[li]['k']}) reports {attr}={got!r}, pool has {want!r}")
            if res.violations:
                return res
        # records may be kept by a handler and only formatted later (logging.handlers.MemoryHandler): each must still carry what
        # it carried when it was emitted, whatever was written afterwards
        for record, want, tag in retained:
            got = record.args if isinstance(record.args, dict) else {}
            stale = {k: (got.get(k), w) for k, w in want.items() if k not in got or got[k] != w}
            if stale:
                res.fail("logger-record-changed-later", f"{tag}: the record emitted for this write was changed by later writes: field -> (now, at emission) {stale}")
                break
        n_log = sum(1 for L in layers if L["k"] == "logger")
        res.cls("depth:%d" % len(layers), "loggers:%d" % n_log, "transparent:" + str(transparent),
                "root-logger:" + str(any(L["k"] == "logger" and L["name"] in ("", "root") for L in layers)))
        res.nontrivial = (len(layers) >= 2 and n_log >= 1 and writes >= 1) or nt_template
    except Exception as e:
        res.fail("unexpected-exception", f"{type(e).__name__}: {e}")
    finally:
        for lg, h, old in reversed(cleanup):
            lg.removeHandler(h)
            lg.setLevel(old[0])
            lg.propagate = old[1]
        for name in [n for n in logging.Logger.manager.loggerDict if n.startswith(f"verif.c16.n{uid}")]:
            del logging.Logger.manager.loggerDict[name]
    return res


def tests(tier):
    return [TestDef("stacks", run_case, strategy=case, quick=24000, thorough=400000)]
