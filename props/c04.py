"""C04 - A >> chain builds exactly the nested pipeline, however grouped or curried"""
import itertools
import threading

import trio
import asyncio
from hypothesis import strategies as st

from cobald.daemon import service
from cobald.interfaces import Controller, Partial, Pool, PoolDecorator

from vlib.core import HarnessError, Result, TestDef

ID = "C04"
LEVEL = "exploration"
RULE = (
    "Hypothesis-generated chains of 1-7 controller/decorator templates plus a pool tail (instance, template or curried template); "
    "every element has a generated constructor signature (positional-only, positional-or-keyword with/without defaults, *args, "
    "keyword-only, **kwargs), optionally wrapped by @service like all shipped controllers; argument lists are constructed from the "
    "signature (bindable, or made incomplete) or adversarially (too many positionals, unknown names, positional/keyword duplicates, "
    "duplicates across curry calls, target=, a Pool instance first) and split over 1-4 template calls; the >> operators are grouped "
    "by a generated binary tree (all Catalan shapes up to 6 operators are also enumerated). Oracle: (1) hand nesting of the "
    "constructors: same types, target identity chain, recorded arguments and construction log, for every grouping/split; (2) an "
    "independent model of Python call binding decides at each template call whether the accumulated arguments can still bind: "
    "TypeError must be raised exactly then; (3) the model itself is validated against real calls. Non-trivial = >= 3 operators in a "
    "grouping that is not left-to-right, or arguments split over >= 2 calls, or an adversarial list; distinct = canonical JSON."
)
ASSUMPTIONS = [
    "a Pool instance as first positional argument of a controller/decorator template counts as an attempt to pass the target",
    "the call-binding model is validated against Python's real call semantics on every complete argument list (harness error on disagreement)",
]

FLAVOURS = {"asyncio": asyncio, "trio": trio, "threading": threading}


class LeafBase(Pool):
    supply = demand = utilisation = allocation = 0


class DecoBase(PoolDecorator):
    pass


class CtrlBase(Controller):
    pass


# ---------------------------------------------------------------------------- model of call binding
def param_lists(sig, leaf):
    if sig.get("implicit_target") and not leaf:
        return [], [], []
    po = [n for n, _d in sig["po"]]
    pk = [n for n, _d in sig["pk"]]
    if not leaf:
        if po:
            po = ["target"] + po
        else:
            pk = ["target"] + pk
    return po, pk, [n for n, _d in sig["ko"]]


def model_bind(sig, leaf, args, kwargs, full):
    """None if (args, kwargs) [after the target for non-leaf] can bind (partially / fully), else a reason"""
    po, pk, ko = param_lists(sig, leaf)
    positional = po + pk
    npos = len(args) + (0 if leaf else 1)
    if npos > len(positional) and not sig["va"]:
        return "too many positional arguments"
    filled = set(positional[:npos])
    for k in kwargs:
        if k in po:
            if not sig["vk"]:
                return f"positional-only {k!r} passed as keyword"
        elif k in pk or k in ko:
            if k in filled:
                return f"multiple values for {k!r}"
        elif not sig["vk"]:
            return f"unexpected keyword {k!r}"
    if full:
        required = {n for n, d in sig["po"] + sig["pk"] + sig["ko"] if not d}
        have = filled | {k for k in kwargs if k not in po}
        missing = required - have
        if missing:
            return f"missing {sorted(missing)}"
    return None


# ---------------------------------------------------------------------------- generated classes
def class_source(name, base, sig, leaf):
    def fmt(items):
        return [n + ("=%r" % ("dflt_" + n) if d else "") for n, d in items]

    if sig.get("implicit_target") and not leaf:
        # the constructor takes its target through *args (a thin wrapper): def __init__(self, *args, **kwargs)
        return "\n".join([
            f"class {name}({base}):",
            "    def __init__(self, *args, **kwargs):",
            "        LOG.append((type(self).__name__, args[0], {'*': tuple(args[1:]), '**': dict(kwargs)}, self))",
            "        super().__init__(args[0])",
            "    def run(self):\n        pass",
        ]) + "\n"
    params = ["self"]
    if not leaf:
        params.append("target")
    if sig["po"]:
        params += fmt(sig["po"]) + ["/"]
    params += fmt(sig["pk"])
    if sig["va"]:
        params.append("*args")
    elif sig["ko"]:
        params.append("*")
    params += fmt(sig["ko"])
    if sig["vk"]:
        params.append("**kwargs")
    names = [n for n, _ in sig["po"] + sig["pk"] + sig["ko"]]
    items = ["%r: %s" % (n, n) for n in names]
    if sig["va"]:
        items.append("'*': tuple(args)")
    if sig["vk"]:
        items.append("'**': dict(kwargs)")
    bound, extra = ", ".join(items), ""
    if sig.get("via_new"):
        # the real constructor is a custom __new__; __init__ only forwards (its signature says nothing about the parameters)
        body = [
            f"class {name}({base}):",
            f"    def __new__({', '.join(['cls'] + params[1:])}):",
            "        self = super().__new__(cls)",
            f"        LOG.append((cls.__name__, {'None' if leaf else 'target'}, {{{bound}{extra}}}, self))",
            "        return self",
            "    def __init__(self, *args, **kwargs):",
            "        " + ("pass" if leaf else "super().__init__(args[0] if args else kwargs['target'])"),
        ]
        body.append("    def run(self):\n        pass")
        return "\n".join(body) + "\n"
    body = [
        f"class {name}({base}):",
        f"    def __init__({', '.join(params)}):",
        f"        LOG.append((type(self).__name__, {'None' if leaf else 'target'}, {{{bound}{extra}}}, self))",
    ]
    if not leaf:
        body.append("        super().__init__(target)")
    body.append("    def run(self):\n        pass")
    return "\n".join(body) + "\n"


def build_class(ns, name, kind, sig, svc):
    base = {"ctrl": "CtrlBase", "deco": "DecoBase", "leaf": "LeafBase"}[kind]
    if svc and sig.get("redeclared") and kind != "leaf" and not sig.get("via_new") and not sig.get("implicit_target"):
        # the class refines a service class (declared for another flavour, constructed from the target alone) and is declared a
        # service again with a constructor of its own
        other = [f for f in sorted(FLAVOURS) if f != svc][0]
        ns[name + "Base"] = service(flavour=FLAVOURS[other])(type(name + "Base", (ns[base],), {"run": lambda self: None}))
        base = name + "Base"
    exec(class_source(name, base, sig, kind == "leaf"), ns)
    cls = ns[name]
    if svc:
        cls = service(flavour=FLAVOURS[svc])(cls)
    return cls


# ---------------------------------------------------------------------------- strategies
@st.composite
def signature(draw, leaf):
    def plist(names, need_default=False):
        out = []
        for n in names:
            d = need_default or draw(st.booleans())
            need_default = d
            out.append([n, d])
        return out, need_default

    po, nd = plist(["p0", "p1"][: draw(st.sampled_from([0, 0, 0, 1, 2]))])
    pk_names = ["a", "b", "c"][: draw(st.integers(0, 3))]
    if draw(st.integers(0, 7)) == 0:
        # parameter names that the template machinery uses for itself (Partial(ctor, ...), Controller.s(cls, ...)): an element may own them
        pk_names = ["ctor", "cls", "c"][: len(pk_names)]
        reserved_names = True
    else:
        reserved_names = False
    if leaf and draw(st.integers(0, 5)) == 0:
        pk_names = ["target"] + pk_names  # a pool may legitimately own a parameter called target
    pk, _ = plist(pk_names, nd)
    ko = [[n, draw(st.booleans())] for n in ["k1", "k2"][: draw(st.integers(0, 2))]]
    if not leaf and draw(st.integers(0, 7)) == 0:
        return {"po": [], "pk": [], "va": True, "ko": [], "vk": True, "implicit_target": True}
    return {"po": po, "pk": pk, "va": draw(st.booleans()) and draw(st.booleans()), "ko": ko,
            "vk": draw(st.booleans()) and draw(st.booleans()), "via_new": not reserved_names and draw(st.integers(0, 5)) == 0,
            "redeclared": draw(st.integers(0, 3)) == 0}


_val = itertools.count(100)


@st.composite
def element(draw, kind, clean=False):
    leaf = kind == "leaf"
    sig = draw(signature(leaf))
    positional = sig["po"] + sig["pk"]
    m = draw(st.integers(0, len(positional)))
    # positional-only parameters without default must be given positionally
    for i, (n, d) in enumerate(sig["po"]):
        if not d:
            m = max(m, i + 1)
    ctr = draw(st.integers(0, 10**6))
    vals = iter(range(ctr * 100, ctr * 100 + 99))
    args = [next(vals) for _ in range(m)]
    if sig["va"] and m == len(positional):
        args += [next(vals) for _ in range(draw(st.integers(0, 2)))]
    kwargs = {}
    for n, d in positional[m:]:
        if n in dict(sig["po"]):
            continue
        if not d or draw(st.booleans()):
            kwargs[n] = next(vals)
    for n, d in sig["ko"]:
        if not d or draw(st.booleans()):
            kwargs[n] = next(vals)
    if sig["vk"]:
        for n in ["x1", "x2"][: draw(st.integers(0, 2))]:
            kwargs[n] = next(vals)
    if leaf and draw(st.integers(0, 3)) == 0 and (positional or sig["va"]) and args:
        args[0] = {"pool": next(vals)}  # composite-like: a pool instance as first positional argument
    if not leaf and len(args) >= 2 and draw(st.integers(0, 2)) == 0:
        # an ordinary parameter of a controller/decorator that takes a pool (a fallback pool, say) - not the first one, where
        # a pool instance is taken for an attempt to pass the target
        args[draw(st.integers(1, len(args) - 1))] = {"pool": next(vals)}
    mode = "bindable" if clean else draw(st.sampled_from(["bindable"] * 7 + ["incomplete", "too-many", "unknown", "dup-pos-kw", "dup-calls", "target-kw", "target-pool"]))
    if mode == "incomplete":
        required_kw = [n for n, d in positional[m:] + sig["ko"] if not d and n in kwargs]
        if required_kw:
            del kwargs[draw(st.sampled_from(required_kw))]
        elif args and 0 < len(args) <= len(positional) and not positional[len(args) - 1][1]:
            args = args[:-1]
        else:
            mode = "bindable"
    elif mode == "too-many":
        args = args + [next(vals) for _ in range(len(positional) - len(args) + 1)] if len(args) <= len(positional) else args + [next(vals)]
    elif mode == "unknown":
        kwargs["nope"] = next(vals)
    elif mode == "dup-pos-kw":
        cand = [n for n, _d in positional[: len(args)] if n not in dict(sig["po"])]
        if cand:
            kwargs[draw(st.sampled_from(cand))] = next(vals)
        else:
            mode = "bindable"
    elif mode == "target-kw":
        kwargs["target"] = next(vals)
    elif mode == "target-pool":
        args = [{"pool": next(vals)}] + args
    ncalls = draw(st.integers(1, 4))
    cuts = sorted(draw(st.lists(st.integers(0, len(args)), min_size=ncalls - 1, max_size=ncalls - 1)))
    bounds = [0] + cuts + [len(args)]
    calls = [{"a": args[bounds[i]: bounds[i + 1]], "k": {}} for i in range(ncalls)]
    for k, v in kwargs.items():
        calls[draw(st.integers(0, ncalls - 1))]["k"][k] = v
    if mode == "dup-calls":
        if kwargs and ncalls >= 2:
            k = draw(st.sampled_from(sorted(kwargs)))
            holder = [i for i, c in enumerate(calls) if k in c["k"]][0]
            other = draw(st.sampled_from([i for i in range(ncalls) if i != holder]))
            calls[other]["k"][k] = next(vals)
        else:
            mode = "bindable"
    svc = None
    if not leaf and draw(st.booleans()):
        svc = draw(st.sampled_from(sorted(FLAVOURS)))
    return {"kind": kind, "sig": sig, "service": svc, "calls": calls, "mode": mode}


@st.composite
def tree(draw, lo, hi):
    if lo == hi:
        return lo
    k = draw(st.integers(lo, hi - 1))
    return [draw(tree(lo, k)), draw(tree(k + 1, hi))]


@st.composite
def chain(draw):
    n = draw(st.integers(1, 7))
    clean = draw(st.booleans())  # half of the chains are bindable throughout, so that long chains get built
    elems = [draw(element("ctrl" if i == 0 and draw(st.booleans()) else "deco", clean)) for i in range(n)]
    tail_form = draw(st.sampled_from(["instance", "template", "template"]))
    tail = draw(element("leaf", clean))
    if tail_form == "instance":
        tail["mode"] = "bindable"
    return {"elems": elems, "tail": tail, "tail_form": tail_form, "tree": draw(tree(0, n)), "warmup": draw(st.booleans()), "reuse": draw(st.booleans())}


# ---------------------------------------------------------------------------- execution
class Ctx:
    def __init__(self):
        self.ns = {"LOG": [], "CtrlBase": CtrlBase, "DecoBase": DecoBase, "LeafBase": LeafBase}
        self.pools = {}

    def value(self, v):
        if isinstance(v, dict) and "pool" in v:
            return self.pools.setdefault(v["pool"], LeafBase())
        return v

    def args(self, call):
        return [self.value(v) for v in call["a"]], {k: self.value(v) for k, v in call["k"].items()}


def flatten_calls(ctx, calls):
    args, kwargs, dup = [], {}, False
    for c in calls:
        a, k = ctx.args(c)
        args += a
        for key, v in k.items():
            if key in kwargs:
                dup = True
            kwargs[key] = v
    return args, kwargs, dup


def describe(log_entry, serials):
    name, target, bound, _self = log_entry
    return (name, serials.get(id(target), "given" if target is not None else None),
            {k: (("pool", id(v)) if isinstance(v, Pool) else v) for k, v in bound.items()})


def normalise(log):
    serials, out = {}, []
    for entry in log:
        out.append(describe(entry, serials))
        serials[id(entry[3])] = len(out) - 1
    return out


def json_leaves(key):
    """leaf indices of a memo key (the repr of a nested list of ints)"""
    import re

    return [int(x) for x in re.findall(r"\d+", key)]


def is_left_to_right(t):
    while isinstance(t, list):
        if isinstance(t[1], list):
            return False
        t = t[0]
    return True


def run_chain(spec) -> Result:
    res = Result()
    ctx = Ctx()
    elems, tail = spec["elems"], spec["tail"]
    n = len(elems)
    classes = [build_class(ctx.ns, f"E{i}", e["kind"], e["sig"], e["service"]) for i, e in enumerate(elems)]
    tail_cls = build_class(ctx.ns, "Tail", "leaf", tail["sig"], None)
    log = ctx.ns["LOG"]
    adversarial = False
    split = False
    # ---- template creation and currying, judged call by call against the binding model
    templates = []
    rejected = None
    for i, e in enumerate(elems + [tail]):
        leaf = i == n
        if leaf and spec["tail_form"] == "instance":
            templates.append(None)
            continue
        cls = tail_cls if leaf else classes[i]
        acc_a, acc_k = [], {}
        tmpl = None
        if len([c for c in e["calls"] if c["a"] or c["k"]]) >= 2:
            split = True
        if e["mode"] not in ("bindable", "incomplete"):
            adversarial = True
        for ci, call in enumerate(e["calls"]):
            a, k = ctx.args(call)
            dup_across = any(key in acc_k for key in k)
            acc_a = acc_a + a
            acc_k = {**acc_k, **k}
            why = None
            if dup_across:
                why = "keyword repeated across template calls"
            elif not leaf and ("target" in acc_k or (acc_a and isinstance(acc_a[0], Pool))):
                why = "attempt to pass the target"
            else:
                why = model_bind(e["sig"], leaf, acc_a, acc_k, full=False)
            if spec.get("warmup") and ci == 0:
                # history: the same constructor was already used for a harmless template of the same argument shape
                try:
                    cls.s(*[(-1 - n if isinstance(x, Pool) else x) for n, x in enumerate(a)], **{key: (0 if isinstance(v, Pool) else v) for key, v in k.items() if key != "target"})
                except TypeError:
                    pass
            try:
                tmpl = cls.s(*a, **k) if ci == 0 else tmpl(*a, **k)
                raised = None
            except TypeError as err:
                raised = err
            except Exception as err:
                res.fail("template-call-raises-other", f"element {i} call {ci}: {type(err).__name__}: {err}")
                return res
            where = f"element {i} ({'service ' + e['service'] if e.get('service') else 'plain'} {e['kind']}, signature {e['sig']}), call {ci} with args={call['a']} kwargs={call['k']} (accumulated {len(acc_a)} positional, keywords {sorted(acc_k)})"
            if why is not None and raised is None:
                res.fail("unbindable-not-rejected-eagerly", f"{where}: can never bind ({why}) but no TypeError was raised when supplied")
                return res
            if why is None and raised is not None:
                res.fail("bindable-rejected", f"{where}: arguments can still bind but TypeError was raised: {raised}")
                return res
            if raised is not None:
                rejected = (i, why)
                break
            if not isinstance(tmpl, Partial):
                res.fail("template-type", f"{where}: returned {type(tmpl).__name__}, not a template")
                return res
        if rejected:
            break
        templates.append(tmpl)
    if rejected:
        res.cls("verdict:rejected-eagerly:" + rejected[1].split(" ")[0])
        res.nontrivial = True
        return res
    # ---- hand nesting (the reference)
    def full_args(e):
        a, k, _dup = flatten_calls(ctx, e["calls"])
        return a, k

    log.clear()
    hand_error = None
    given_pool = None
    if spec["tail_form"] == "instance":
        ta, tk = full_args(tail)
        try:
            given_pool = tail_cls(*ta, **tk)
        except TypeError:
            # an instance tail whose generated constructor arguments do not bind cannot be built at all: not a case
            res.cls("verdict:tail-instance-unbuildable")
            return res
        log.clear()
    try:
        if spec["tail_form"] == "instance":
            obj = given_pool
        else:
            ta, tk = full_args(tail)
            why = model_bind(tail["sig"], True, ta, tk, full=True)
            try:
                obj = tail_cls(*ta, **tk)
            except TypeError as err:
                if why is None:
                    raise HarnessError(f"binding model says {ta},{tk} binds to {tail['sig']} but Python raised {err}")
                raise
            if why is not None:
                raise HarnessError(f"binding model says {why} for {ta},{tk} on {tail['sig']} but Python accepted")
        for i in reversed(range(n)):
            a, k = full_args(elems[i])
            why = model_bind(elems[i]["sig"], False, a, k, full=True)
            try:
                obj = classes[i](obj, *a, **k)
            except TypeError as err:
                if why is None:
                    raise HarnessError(f"binding model says {a},{k} binds to {elems[i]['sig']} but Python raised {err}")
                raise
            if why is not None:
                raise HarnessError(f"binding model says {why} for {a},{k} on {elems[i]['sig']} but Python accepted")
        hand = normalise(log)
        hand_head = obj
    except TypeError as err:
        hand_error = err
    # ---- the chain under test
    log.clear()
    leaves = templates[:n] + [given_pool if spec["tail_form"] == "instance" else templates[n]]

    memo = {}

    def has_tail(t):
        return t == n if not isinstance(t, list) else has_tail(t[0]) or has_tail(t[1])

    def ev(t):
        if isinstance(t, list):
            key = repr(t)
            if spec.get("reuse") and not has_tail(t):
                # templates are values: an intermediate expression may be kept and used for several pipelines
                if key not in memo:
                    memo[key] = ev(t[0]) >> ev(t[1])
                return memo[key]
            return ev(t[0]) >> ev(t[1])
        return leaves[t]

    try:
        head = ev(spec["tree"])
        if spec.get("reuse") and hand_error is None:
            first_log = list(log)
            # every intermediate template expression is bound once more, to a fresh pool: it must still describe exactly
            # its own elements (an expression that was extended in place while building the full chain would not)
            for key, expr in list(memo.items()):
                sub = json_leaves(key)
                lo, hi = min(sub), max(sub)
                ta, tk = full_args(tail)
                try:
                    fresh = tail_cls(*ta, **tk)
                except TypeError:
                    break
                log.clear()
                obj = fresh
                for i in reversed(range(lo, hi + 1)):
                    a, k = full_args(elems[i])
                    obj = classes[i](obj, *a, **k)
                want_sub = normalise(log)
                log.clear()
                fresh2 = tail_cls(*ta, **tk)
                log.clear()
                got_obj = expr >> fresh2
                got_sub = normalise(log)
                if got_sub != want_sub:
                    res.fail("reused-template-expression-differs", f"the intermediate expression over elements {lo}..{hi} of tree {spec['tree']}, bound to a fresh pool after the full chain was built, constructs {got_sub}, expected {want_sub}")
                    return res
            log[:] = first_log
        err = None
    except TypeError as e:
        head, err = None, e
    except Exception as e:
        res.fail("chain-raises-other", f"{type(e).__name__}: {e} for {spec}")
        return res
    if hand_error is not None:
        res.cls("verdict:incomplete")
        if err is None:
            res.fail("incomplete-accepted", f"hand nesting raises {hand_error} but the chain built {head!r}")
        return res
    if err is not None:
        res.fail("bindable-chain-raises", f"hand nesting succeeds but the chain raised TypeError: {err}; spec {spec}")
        return res
    got = normalise(log)
    if got != hand:
        res.fail("construction-log-differs", f"chain constructed {got}, hand nesting {hand} (tree {spec['tree']})")
        return res
    # object graph: types and target identity down to the very pool supplied
    obj, ref = head, hand_head
    for i in range(n):
        if type(obj) is not classes[i]:
            res.fail("wrong-type", f"position {i}: {type(obj).__name__}, expected {classes[i].__name__}")
            return res
        obj, ref = obj.target, ref.target
    if type(obj) is not tail_cls:
        res.fail("wrong-tail-type", f"tail is {type(obj).__name__}")
    if spec["tail_form"] == "instance" and obj is not given_pool:
        res.fail("tail-identity", "the pool at the end of the chain is not the pool instance supplied")
    res.cls("verdict:built", "n:%d" % n, "tail:" + spec["tail_form"], "ltr:" + str(is_left_to_right(spec["tree"])),
            "service:" + str(any(e["service"] for e in elems)), "constructed-by-__new__:" + str(any(e["sig"].get("via_new") for e in elems + [tail])))
    for e in elems + [tail]:
        res.cls("mode:" + e["mode"])
    res.nontrivial = (n >= 3 and not is_left_to_right(spec["tree"])) or split or adversarial
    return res


# ---------------------------------------------------------------------------- exhaustive groupings
def all_trees(lo, hi):
    if lo == hi:
        yield lo
        return
    for k in range(lo, hi):
        for left in all_trees(lo, k):
            for right in all_trees(k + 1, hi):
                yield [left, right]


def enum_groupings(shard, nshards):
    sig = {"po": [], "pk": [["a", False], ["b", True]], "va": False, "ko": [["k1", True]], "vk": False}
    idx = 0
    for n in range(1, 7):
        for t in all_trees(0, n):
            for form in ("instance", "template", "curried"):
                idx += 1
                if idx % nshards != shard:
                    continue
                elems = [{"kind": "ctrl" if i == 0 else "deco", "sig": sig, "service": "trio" if i % 2 else None, "mode": "bindable",
                          "calls": [{"a": [10 * i], "k": {}}, {"a": [], "k": {"k1": 10 * i + 1}}]} for i in range(n)]
                tail_calls = [{"a": [7], "k": {}}] if form != "curried" else [{"a": [], "k": {}}, {"a": [7], "k": {"b": 8}}]
                tail = {"kind": "leaf", "sig": sig, "service": None, "mode": "bindable", "calls": tail_calls}
                yield {"elems": elems, "tail": tail, "tail_form": "instance" if form == "instance" else "template", "tree": t}


def tests(tier):
    return [
        TestDef("chain", run_chain, strategy=chain(), quick=10000, thorough=400000),
        TestDef("all-groupings", run_chain, enumerate=enum_groupings, exhaustive=True),
    ]
