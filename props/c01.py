"""C01 - Background failures always stop the daemon (fail-stop, never silent)"""
from hypothesis import strategies as st

from engines.runtime_worker import run_scenario
from engines.scenarios import (ALL, BASE_NAMES, EXC_NAMES, FALSY, RETURN_NAMES, accept_delay, bystander, chain_has_injected,
                               flatten_leaves, switchinterval)
from vlib.core import HarnessError, Result, TestDef

ID = "C01"
LEVEL = "fault_enumeration"
RULE = (
    "Hypothesis-generated scenarios executed by the runtime interpreter (engines/runtime_worker.py) in a forked process with "
    "accept()/run() in the main thread: 1-3 failing payloads x flavour {asyncio, trio, threading} x failure kind {one of ~40 "
    "Exception subclasses incl. StopIteration (threads), StopAsyncIteration, ExceptionGroup, exceptions with required constructor "
    "arguments; SystemExit / GeneratorExit / custom BaseException; 13 return values incl. all falsy ones; KeyboardInterrupt raised "
    "or delivered as real SIGINT} x registration {queued before start, adopted after start by an outside thread, adopted from inside "
    "a running payload of each flavour, service created before start / after start by an outside thread or a payload} x runner "
    "{ServiceRunner.accept, MetaRunner.run} x 0-6 bystanders (sleeping, spinning, beating, blocked thread) x generated delays, "
    "accept_delay and switch interval; plus an exhaustive product of flavour x kind x registration x runner without bystanders. "
    "Oracle: the blocking call ends within 20 s; it never returns normally without a KeyboardInterrupt; for Exception / return "
    "failures it raises RuntimeError whose cause flattened through exception groups consists only of injected failures (by "
    "identity; OrphanedReturn.value is the returned object). Non-trivial = not a plain pre-queued raise: falsy return, "
    "BaseException, adopted after start or from a payload, a service, >= 2 failing payloads, or cross-flavour bystanders; "
    "distinct = canonical JSON of the scenario."
)
ASSUMPTIONS = [
    "thread interleavings are sampled (generated delays, switch intervals, accept delays), not enumerated",
    "'never keeps running' is judged as bounded liveness: 20 s against typical 0.1-0.5 s",
    "coroutine payloads do not raise StopIteration (PEP 479 turns it into RuntimeError before it leaves the payload) nor their own framework's cancellation exception",
    "for StopIteration raised by a thread payload the original must be reachable through the __cause__/__context__ chain of the reported cause",
]
BOUND = 20


def kinds_for(flv):
    exc = [n for n in EXC_NAMES if n != "StopIteration" or flv == "threading"]
    return st.one_of(
        st.tuples(st.just("exc"), st.sampled_from(exc)),
        st.tuples(st.just("exc"), st.sampled_from(exc)),
        st.tuples(st.just("ret"), st.sampled_from(RETURN_NAMES)),
        st.tuples(st.just("ret"), st.sampled_from(FALSY)),
        st.tuples(st.just("base"), st.sampled_from(BASE_NAMES)),
        st.tuples(st.just("kbint"), st.just("KeyboardInterrupt")),
    )


REG_SERVICE = ["pre", "outside", "from", "pre-service", "post-service-outside", "post-service-from"]
REG_META = ["pre", "outside", "from"]


@st.composite
def scenario(draw):
    runner = draw(st.sampled_from(["service", "service", "meta"]))
    regs = REG_SERVICE if runner == "service" else REG_META
    payloads, drivers = [], [[]]
    nby = draw(st.integers(0, 6))
    for i in range(nby):
        b = draw(bystander(100 + i))
        if runner == "meta":
            b["reg"] = {"how": "pre"}
        payloads.append(b)
    nfail = draw(st.sampled_from([1, 1, 1, 2, 2, 3]))
    same_instant = nfail > 1 and draw(st.booleans())
    threads_together = nfail > 1 and draw(st.integers(0, 3)) == 0  # several thread payloads released by one event
    for i in range(nfail):
        flv = "threading" if threads_together else draw(st.sampled_from(ALL))
        kind, what = draw(kinds_for(flv))
        reg = "pre" if threads_together else draw(st.sampled_from(regs))
        delay = 5 if same_instant else draw(st.sampled_from([0, 0, 1, 5, 20]))
        sync_raise = flv != "threading" and kind in ("exc", "base") and draw(st.integers(0, 4)) == 0
        if sync_raise and draw(st.integers(0, 2)) == 0:
            what = "StopIteration"  # raised by a plain callable it is a real StopIteration (a coroutine cannot raise one)
            kind = "exc"
        p = {"id": i + 1, "flavour": flv, "role": "failing", "kind": kind,
             "program": [["wait", "go"]] if threads_together else [["sleep", delay]] if delay else [], "end": ["return", what] if kind == "ret" else ["raise", what]}
        if reg in ("pre", "pre-service"):
            p["reg"] = {"how": reg}
        elif reg in ("outside", "post-service-outside"):
            p["reg"] = {"how": "outside"}
            drivers[0].append({"at_ms": draw(st.sampled_from([0, 0, 3, 30])), "op": "adopt" if reg == "outside" else "service", "pid": p["id"]})
        else:
            pflv = draw(st.sampled_from(ALL))
            parent = {"id": 50 + i, "flavour": pflv, "role": "parent", "reg": {"how": "pre"},
                      "program": [["sleep", draw(st.sampled_from([0, 2, 20]))], ["adopt" if reg == "from" else "service", p["id"]]],
                      "end": ["forever"], "cleanup": {}}
            p["reg"] = {"how": "from", "parent": parent["id"], "parent_flavour": pflv}
            payloads.append(parent)
        p["regmode"] = reg
        if sync_raise:
            p["callable"] = "sync-raise"
        payloads.append(p)
    drivers[0].sort(key=lambda s: s["at_ms"])
    if threads_together:
        drivers.append([{"at_ms": draw(st.sampled_from([2, 10])), "op": "set", "name": "go"}])
    sigint = draw(st.integers(0, 9)) == 0
    if sigint:
        drivers.append([{"at_ms": draw(st.sampled_from([0, 5, 40])), "op": "sigint"}])
    if not sigint and all(p["kind"] in ("exc", "ret") for p in payloads if p["role"] == "failing"):
        # asyncio bystanders that absorb their first cancellation(s) and only then wind down (e.g. a suppressed CancelledError
        # around an inner await). Only where cobald's own graceful close runs to its end: a second, loop-aborting event during
        # that close (a SIGINT, or a BaseException raised inside an asyncio task) hands the rest to asyncio's teardown, which
        # cancels once - with such a payload around that never ends on the unchanged tree (DESIGN.md section 11)
        for b in payloads:
            if b["role"] == "bystander" and b["flavour"] == "asyncio" and b.get("state") != "spinning" and draw(st.integers(0, 2)) == 0:
                b["stubborn"] = draw(st.sampled_from([1, 1, 2, 4]))
    sc = {"runner": runner, "accept_delay": draw(accept_delay), "switchinterval": draw(switchinterval), "bound_s": BOUND,
          "linger_ms": 30, "payloads": payloads, "drivers": drivers, "sigint": sigint}
    if draw(st.integers(0, 4)) == 0 and len(payloads) <= 8:
        # harness-owned schedule: per-thread delays at every source line of the runner modules
        sc["trace_delay"] = {"files": ["runners/asyncio_runner.py", "runners/trio_runner.py", "runners/thread_runner.py", "runners/meta_runner.py",
                                       "runners/base_runner.py", "runners/service.py"],
                             "delays_ms": [draw(st.sampled_from([0, 0, 1])), draw(st.sampled_from([0, 1, 2])), draw(st.sampled_from([0, 1, 3]))]}
    return sc


def judge(sc, obs) -> Result:
    if sc.get("episodes"):
        res = Result()
        earlier = []
        for k, ep in enumerate(sc["episodes"]):
            # thread payloads of an earlier run keep running: what they adopt later fails in the current run
            sub = judge_episode(ep, obs, k, earlier)
            earlier = earlier + [p for p in ep["payloads"] if p.get("role") == "failing"]
            for v in sub.violations:
                v.message = f"[run {k + 1} of {len(sc['episodes'])} on the same runner instance] " + v.message
            res.violations += sub.violations
            res.expensive = res.expensive or sub.expensive
            if sub.violations:
                break
        return res
    return judge_episode(sc, obs, 0)


def judge_episode(sc, obs, k, earlier=()) -> Result:
    res = Result()
    failing = [p for p in sc["payloads"] if p.get("role") == "failing"] + list(earlier)
    desc = "; ".join(f"{p['flavour']} {p['end']} via {p.get('regmode')}" for p in failing) + f" [{sc['runner']}, {len(sc['payloads']) - len(failing)} others]"
    if obs.get("worker_error"):
        raise HarnessError("scenario worker failed: " + str(f"{obs['worker_error']} ({desc})"))
    if len(obs.get("episodes", [])) <= k:
        reached = {**obs.get("injected", {}), **obs.get("returned", {})}
        res.expensive = True
        res.fail("keeps-running", f"the blocking call did not end within {BOUND}s although a failure was injected ({desc}); failures reached: {reached}; "
                 f"ops: {[(o.get('op'), o.get('pid'), o.get('raised')) for o in obs.get('ops', [])]}")
        return res
    out = obs["episodes"][k]
    mine = {p["id"] for p in failing}
    reached_exc = {int(i): v for i, v in obs.get("injected", {}).items() if int(i) in mine}
    reached_ret = {int(i) for i in obs.get("returned", {}) if int(i) in mine}
    by_id = {p["id"]: p for p in failing}
    reached = set(reached_exc) | reached_ret
    kinds = {by_id[i]["kind"] for i in reached if i in by_id}
    kbint = "kbint" in kinds or sc.get("sigint")
    for o in obs.get("ops", []):
        if o.get("error"):
            raise HarnessError(f"driver thread failed: {o}")
    if out.get("late_sigint") and "exc" not in out and out["how"] == "raised":
        return res  # the interrupt hit the harness while it described the exception: inconclusive, not a verdict
    if out["how"] == "returned":
        if not kbint:
            res.fail("returned-normally", f"the blocking call returned normally after failures {sorted(reached)} ({desc})")
        return res
    exc = out["exc"]
    if kbint or "base" in kinds:
        return res  # raised: legal, whatever the type
    if not reached:
        res.fail("raised-without-failure", f"raised {exc['type']} {exc['repr']} although no injected failure was reached ({desc})")
        return res
    # every reached failure is an Exception subclass or a return value
    if exc["type"] != "RuntimeError":
        res.fail("not-runtime-error", f"raised {exc['type']}: {exc['repr']} instead of RuntimeError ({desc})")
        return res
    if exc.get("cause") is None:
        res.fail("no-cause", f"RuntimeError without cause ({desc})")
        return res
    found = []

    def walk(node):
        """look through exception groups; an injected failure (also an injected group) is taken as a whole"""
        if node.get("injected") in reached or node.get("orphan_value_of") in reached:
            found.append(node)
            return None
        if node.get("group") is not None:
            for sub in node["group"]:
                bad = walk(sub)
                if bad is not None:
                    return bad
            return None
        if chain_has_injected(node, reached):
            found.append(node)  # carried in the cause chain (e.g. StopIteration from a thread)
            return None
        return node

    bad = walk(exc["cause"])
    if bad is not None:
        res.fail("foreign-cause", f"cause contains {bad['type']} {bad['repr']} which is not an injected failure ({desc}); tree {exc}")
        return res
    if not found:
        res.fail("cause-not-original", f"none of the injected failures {sorted(reached)} is (by identity) the cause: {exc} ({desc})")
    return res


@st.composite
def rerun(draw):
    """the same runner instance is run twice: the first run ends by a failure, the second must fail-stop as well"""
    first = draw(scenario())
    second = draw(scenario())
    second["runner"] = first["runner"]
    second["reuse_runner"] = True
    # services are process-global and outlive a run (a service of the first run that never got to start would be
    # adopted by the second): this test uses plain payloads only, registered before start / from outside / from payloads
    for ep in (first, second):
        for p in ep["payloads"]:
            if p["reg"]["how"] == "pre-service":
                p["reg"] = {"how": "pre"}
            if p.get("regmode") in ("pre-service", "post-service-outside", "post-service-from"):
                p["regmode"] = "pre"
                p["reg"] = {"how": "pre"}
        ep["payloads"] = [p for p in ep["payloads"] if not (p.get("role") == "parent" and any(i[0] == "service" for i in p["program"]))]
        ep["drivers"] = [[s for s in d if s["op"] != "service"] for d in ep["drivers"]]
    for p in first["payloads"]:
        if p.get("role") == "failing" and p["kind"] not in ("exc", "ret"):
            # the first run ends through an ordinary failure (the statement is about one run; re-running after the
            # loop was torn down by a BaseException is not claimed)
            p["kind"], p["end"] = "exc", ["raise", "KeyError"]
    first["sigint"] = second["sigint"] = False
    first["drivers"] = [[s for s in d if s["op"] != "sigint"] for d in first["drivers"]]
    second["drivers"] = [[s for s in d if s["op"] != "sigint"] for d in second["drivers"]]
    for p in second["payloads"]:  # distinct ids in the second run
        p["id"] += 1000
        if "parent" in p["reg"]:
            p["reg"]["parent"] += 1000
        p["program"] = [[i[0], i[1] + 1000] if i[0] in ("adopt", "service") else i for i in p["program"]]
    for d in second["drivers"]:
        for s in d:
            if "pid" in s:
                s["pid"] += 1000
    return {"episodes": [first, second], "switchinterval": first["switchinterval"], "bound_s": BOUND, "payloads": first["payloads"] + second["payloads"],
            "runner": first["runner"], "sigint": False, "rerun": True}


def run_case(sc) -> Result:
    obs = run_scenario(sc)
    res = judge(sc, obs)
    failing = [p for p in sc["payloads"] if p.get("role") == "failing"]
    others = [p for p in sc["payloads"] if p.get("role") != "failing"]
    for p in failing:
        res.cls(f"{p['flavour']}:{p['kind']}:{p['regmode']}")
    res.cls("runner:" + sc["runner"], "failing:%d" % len(failing), "bystanders:%d" % min(len(others), 6), "sigint:" + str(bool(sc.get("sigint"))),
            "schedule-perturbed:" + str(bool(sc.get("trace_delay"))),
            "absorbing-bystander:" + str(any(p.get("stubborn") for p in sc["payloads"])))
    flavours = {p["flavour"] for p in failing}
    res.nontrivial = (
        len(failing) >= 2
        or any(p["kind"] in ("base", "kbint") or (p["kind"] == "ret" and p["end"][1] in FALSY) or p["regmode"] != "pre" for p in failing)
        or any(o["flavour"] not in flavours for o in others)
    )
    if res.violations:
        res.info = {"episodes": obs.get("episodes"), "ops": obs.get("ops"), "log_tail": obs.get("log", [])[-25:], "hang_threads": obs.get("hang_threads")}
    return res


def enum_core(shard, nshards):
    """flavour x every failure kind x registration x runner, no bystanders"""
    idx = 0
    for runner in ("service", "meta"):
        for flv in ALL:
            kinds = [("exc", n) for n in EXC_NAMES if n != "StopIteration" or flv == "threading"] + [("ret", n) for n in RETURN_NAMES] + \
                    [("base", n) for n in BASE_NAMES] + [("kbint", "KeyboardInterrupt")]
            for kind, what in kinds:
                for reg in (REG_SERVICE if runner == "service" else REG_META):
                    idx += 1
                    if idx % nshards != shard:
                        continue
                    p = {"id": 1, "flavour": flv, "role": "failing", "kind": kind, "program": [["sleep", 1]],
                         "end": ["return", what] if kind == "ret" else ["raise", what], "regmode": reg}
                    payloads, drivers = [p], [[]]
                    if reg in ("pre", "pre-service"):
                        p["reg"] = {"how": reg}
                    elif reg in ("outside", "post-service-outside"):
                        p["reg"] = {"how": "outside"}
                        drivers[0].append({"at_ms": 2, "op": "adopt" if reg == "outside" else "service", "pid": 1})
                    else:
                        pflv = ALL[idx % 3]
                        payloads.insert(0, {"id": 50, "flavour": pflv, "role": "parent", "reg": {"how": "pre"}, "end": ["forever"], "cleanup": {},
                                            "program": [["sleep", 2], ["adopt" if reg == "from" else "service", 1]]})
                        p["reg"] = {"how": "from", "parent": 50, "parent_flavour": pflv}
                    yield {"runner": runner, "accept_delay": 0.01, "switchinterval": None, "bound_s": BOUND, "linger_ms": 10,
                           "payloads": payloads, "drivers": drivers, "sigint": False}


def tests(tier):
    t = [TestDef("scenarios", run_case, strategy=scenario(), quick=640, thorough=20000, shards_quick=16, shrink_budget=60, slow=True),
         TestDef("rerun-same-instance", run_case, strategy=rerun(), quick=96, thorough=3000, shards_quick=16, shrink_budget=30, slow=True)]
    t.append(TestDef("exhaustive-core", run_case, enumerate=enum_core, exhaustive=True, shards_quick=16, shards_thorough=16))
    for td in t:
        td.replay_runs = 10
    return t
