"""C06 - Standardiser always keeps the forwarded demand within its limits"""
import math
from fractions import Fraction

from hypothesis import strategies as st

from cobald.decorator.coarser import Coarser
from cobald.decorator.limiter import Limiter
from cobald.decorator.standardiser import Standardiser

from vlib.core import Result, TestDef
from vlib.pools import StatePool
from vlib.strategies import INF, dyadic, frac, positive_number, small_number

ID = "C06"
LEVEL = "exploration"
RULE = (
    "Hypothesis-generated Standardiser parameter sets (ints, dyadic k/8, +-inf; only combinations the "
    "constructor documents as valid) x histories of 2-30 ops {write v, read, n x '+= 1', supply change, "
    "outside change of target.demand, pass-through read}; written values are constructed on/next to the "
    "active limits (limit, limit+-1, +-ulp, +-granule, multiples of the granularity) as int or float. "
    "Oracle: the clauses of the statement evaluated in exact rational arithmetic plus a reference computation "
    "clamp_minmax(clamp_supply(floor_g(v))). Non-trivial = a write on which >= 2 kinds of limit acted "
    "(granularity / supply window / min-max), or an int demand against a fractional limit, or a "
    "resynchronising read; distinct = distinct canonical JSON of the whole case."
)
ASSUMPTIONS = [
    "supply finite and >= 0, or infinite where no backlog limit is configured (with one, the unchanged code computes an infinite lower limit and fails on int demands); granularity finite; all limits are ints or dyadic rationals so float arithmetic is exact",
    "for the default granularity 1 and fractional demands both clamp(v) and clamp(floor(v)) are accepted for the target",
    "for an int demand limited by a fractional limit any in-range value less than 1 away from the limit is accepted",
    "where the float subtraction abs(readback - target.demand) is inexact and rounds across the granularity, both outcomes of the comparison are accepted (IEEE rounding, e.g. writing -5e-324 with granularity 2)",
]

OFFSETS = ["0", "+1", "-1", "+ulp", "-ulp", "+g", "-g", "+1/8", "-1/8", "+1/2"]


def _limit():
    return st.one_of(st.just(INF), small_number(-20, 300))


@st.composite
def params(draw):
    minimum = draw(st.one_of(st.just(-INF), small_number(-20, 300)))
    if draw(st.booleans()):
        maximum = INF
    else:
        if minimum == -INF:
            maximum = draw(small_number(-20, 300))
        else:
            maximum = minimum + draw(st.one_of(st.integers(0, 40), dyadic(0, 40)))
    gran = draw(
        st.one_of(st.just(1), st.integers(2, 64), st.integers(1, 64 * 8).map(lambda k: k / 8))
    )
    surplus = draw(st.one_of(st.just(INF), positive_number(60)))
    backlog = draw(st.one_of(st.just(INF), positive_number(60)))
    return {"min": minimum, "max": maximum, "gran": gran, "surplus": surplus, "backlog": backlog,
            "alias": draw(st.sampled_from([None, None, "limiter", "coarser"]))}


def vspec():
    return st.fixed_dictionaries(
        {
            "k": st.sampled_from(["int", "float"]),
            "base": st.sampled_from(["abs", "min", "max", "lo", "hi", "mult", "big"]),
            "x": st.one_of(small_number(-40, 400), st.floats(-1e12, 1e12, allow_nan=False)),
            "d": st.sampled_from(OFFSETS),
        }
    )


def op():
    return st.one_of(
        st.tuples(st.just("w"), vspec()),
        st.tuples(st.just("w"), vspec()),
        st.tuples(st.just("r")),
        st.tuples(st.just("inc"), st.integers(1, 12)),
        st.tuples(st.just("sup"), st.one_of(st.integers(0, 400), dyadic(0, 400))),
        st.tuples(st.just("sup"), st.just(INF)),  # a pool without an upper bound of resources (used only without a backlog limit)
        st.tuples(st.just("out"), st.sampled_from(["<g", "=g", ">g", "tiny"]), st.sampled_from([1, -1])),
        st.tuples(st.just("pt"), dyadic(0, 400), dyadic(0, 2, 4), dyadic(0, 2, 4)),
    )


@st.composite
def history(draw):
    p = draw(params())
    p["supply"] = draw(st.one_of(st.integers(0, 400), dyadic(0, 400)))
    p["demand0"] = draw(small_number(-40, 400))
    p["ops"] = [list(o) for o in draw(st.lists(op(), min_size=2, max_size=30))]
    return p


def resolve(vs, p, supply):
    g = p["gran"]
    base = vs["base"]
    x = vs["x"]
    if base == "min" and p["min"] != -INF:
        val = p["min"]
    elif base == "max" and p["max"] != INF:
        val = p["max"]
    elif base == "lo" and p["backlog"] != INF and supply != INF:
        val = supply - p["backlog"]
    elif base == "hi" and p["surplus"] != INF and supply != INF:
        val = supply + p["surplus"]
    elif base == "mult":
        xx = x if abs(x) < 1e6 else math.fmod(x, 1e6)
        val = math.floor(xx / g) * g
    elif base == "big":
        val = x
    else:
        val = x if abs(x) < 1e6 else math.fmod(x, 1e6)
    d = vs["d"]
    if d == "+1":
        val += 1
    elif d == "-1":
        val -= 1
    elif d == "+ulp":
        val = math.nextafter(float(val), INF)
    elif d == "-ulp":
        val = math.nextafter(float(val), -INF)
    elif d == "+g":
        val += g
    elif d == "-g":
        val -= g
    elif d == "+1/8":
        val += 0.125
    elif d == "-1/8":
        val -= 0.125
    elif d == "+1/2":
        val += 0.5
    if vs["k"] == "int":
        return int(math.floor(val))
    return float(val)


def clamp(lo, x, hi):
    if x < lo:
        return lo
    if x > hi:
        return hi
    return x


class Model:
    def __init__(self, p):
        self.min, self.max = frac(p["min"]), frac(p["max"])
        self.g = Fraction(p["gran"])
        self.surplus, self.backlog = frac(p["surplus"]), frac(p["backlog"])

    def window(self, supply):
        if supply == INF:
            # only generated with backlog == INF: inf - inf and inf + surplus put no finite limit on the demand
            return -INF, INF
        s = Fraction(supply)
        lo = -INF if self.backlog == INF else s - self.backlog
        hi = INF if self.surplus == INF else s + self.surplus
        return lo, hi

    def C(self, x, supply):
        lo, hi = self.window(supply)
        return clamp(self.min, clamp(lo, x, hi), self.max)

    def floor_g(self, v):
        return (Fraction(v) / self.g).__floor__() * self.g


def _is_int(x):
    return isinstance(x, int) and not isinstance(x, bool)


def check_write(res, m: Model, v, supply, T, R, p, tag):
    """The clauses of the statement for one write of v"""
    fv = Fraction(v)
    lo, hi = m.window(supply)
    fl = m.floor_g(v)
    Tref, Rref = m.C(fl, supply), m.C(fv, supply)
    try:
        fT, fR = Fraction(T), Fraction(R)
    except (TypeError, ValueError, OverflowError):
        res.fail("forwarded-not-finite", f"{tag}: target.demand={T!r} readback={R!r} after writing {v!r}")
        return set()
    active = set()
    if fl != fv:
        active.add("gran")
    if clamp(lo, fl, hi) != fl or clamp(lo, fv, hi) != fv:
        active.add("window")
    if clamp(m.min, clamp(lo, fl, hi), m.max) != clamp(lo, fl, hi):
        active.add("minmax")
    frac_limit_int_demand = _is_int(v) and (Tref.denominator != 1 or Rref.denominator != 1)
    # (1) within [minimum, maximum]
    if not (m.min <= fT <= m.max):
        res.fail("target-outside-min-max", f"{tag}: wrote {v!r} (supply {supply}) -> target.demand={T!r} not in [{p['min']}, {p['max']}] with {p}")
    # (2) within the supply window unless min/max force otherwise
    w_lo, w_hi = max(lo, m.min), min(hi, m.max)
    if w_lo <= w_hi and not (lo <= fT <= hi):
        res.fail("target-outside-supply-window", f"{tag}: wrote {v!r} (supply {supply}) -> target.demand={T!r} not in [{lo}, {hi}] with {p}")
    # (3) no limit interferes -> floor to granularity
    if Tref == fl:
        ok = fT == fl or (m.g == 1 and fT == m.C(fv, supply))
        if not ok:
            res.fail("target-not-floored", f"{tag}: wrote {v!r}, no limit interferes, expected {fl} got {T!r} with {p}")
    # (4) read-back obeys the same limits
    if not (m.min <= fR <= m.max):
        res.fail("readback-outside-min-max", f"{tag}: wrote {v!r} -> reads back {R!r} not in [{p['min']}, {p['max']}] with {p}")
    if w_lo <= w_hi and not (lo <= fR <= hi):
        res.fail("readback-outside-supply-window", f"{tag}: wrote {v!r} (supply {supply}) -> reads back {R!r} not in [{lo}, {hi}] with {p}")
    # (5) less than a granule from the target
    if not abs(fR - fT) < m.g:
        res.fail("readback-granule", f"{tag}: wrote {v!r}: read-back {R!r} and target {T!r} differ by >= granularity {p['gran']}")
    # (6) read-back is the limited, unrounded value
    #     (tolerance: where the float subtraction |readback - target| rounds up to a full granule
    #      although the exact difference is smaller, following the target is accepted as well)
    rounding_artefact = False
    if fR != Rref and fR == fT:
        try:
            held = int(Rref) if (_is_int(v) and Rref.denominator == 1) else float(Rref)
            rounding_artefact = abs(held - T) >= p["gran"] and abs(Rref - fT) < m.g
        except (OverflowError, ValueError):
            pass
    if fR != Rref and not rounding_artefact:
        if not (frac_limit_int_demand and abs(fR - Rref) < 1):
            res.fail("readback-not-unrounded", f"{tag}: wrote {v!r} (supply {supply}): reads back {R!r}, limited unrounded value is {Rref} with {p}")
    # (7) reference computation of the documented priority order
    alt = {Tref}
    if m.g == 1:
        alt.add(m.C(fv, supply))
    if fT not in alt:
        if not (frac_limit_int_demand and min(abs(fT - a) for a in alt) < 1):
            res.fail("target-differs-from-reference", f"{tag}: wrote {v!r} (supply {supply}): target.demand={T!r}, reference {Tref} with {p}")
    if frac_limit_int_demand:
        active.add("int-vs-fractional-limit")
    return active


def build(p):
    pool = StatePool(demand=p["demand0"], supply=p["supply"], utilisation=0.5, allocation=0.75)
    # the decorator is shipped under three names (Standardiser and its aliases Limiter / Coarser)
    cls = {"limiter": Limiter, "coarser": Coarser}.get(p.get("alias"), Standardiser)
    std = cls(pool, minimum=p["min"], maximum=p["max"], granularity=p["gran"],
              backlog=p["backlog"], surplus=p["surplus"])
    return pool, std


def run_history(p) -> Result:
    res = Result()
    try:
        pool, std = build(p)
    except Exception as e:
        res.fail("ctor-rejects-valid", f"valid parameters rejected: {type(e).__name__}: {e} for {p}")
        return res
    m = Model(p)
    g = m.g
    prevR = p["demand0"]  # Standardiser starts from the target's demand
    nt = False
    try:
        for i, o in enumerate(p["ops"]):
            kind = o[0]
            tag = f"op{i}:{kind}"
            if kind in ("w", "inc"):
                if kind == "w":
                    values = [resolve(o[1], p, pool.supply)]
                    reps = 1
                else:
                    reps = o[1]
                for _ in range(reps):
                    if kind == "inc":
                        cur = std.demand
                        if not check_read(res, m, prevR, pool.demand, cur, tag):
                            return res
                        v = cur + 1
                    else:
                        v = values[0]
                    std.demand = v
                    T = pool.demand
                    R = std.demand
                    active = check_write(res, m, v, pool.supply, T, R, p, tag)
                    if res.violations:
                        return res
                    prevR = R
                    res.cls("limits:" + ("+".join(sorted(active)) or "none"))
                    res.cls("demand:" + ("int" if _is_int(v) else "float"))
                    if len(active & {"gran", "window", "minmax"}) >= 2 or "int-vs-fractional-limit" in active:
                        nt = True
            elif kind == "r":
                cur = std.demand
                resync = check_read(res, m, prevR, pool.demand, cur, tag)
                if res.violations:
                    return res
                if resync == "resync":
                    nt = True
                    res.cls("read:resync")
                else:
                    res.cls("read:stable")
                prevR = cur
            elif kind == "sup":
                # an infinite supply only where no backlog limit would turn it into an infinite lower limit
                pool.supply = o[1] if o[1] != INF or p["backlog"] == INF else 400
            elif kind == "out":
                gf = float(g)
                delta = {"<g": gf - 0.125 if gf > 0.125 else gf / 2, "=g": gf, ">g": gf + 1, "tiny": 0.125}[o[1]] * o[2]
                pool._demand = pool._demand + delta
            elif kind == "pt":
                pool.supply, pool.utilisation, pool.allocation = o[1], o[2], o[3]
                for attr in ("supply", "utilisation", "allocation"):
                    got, want = getattr(std, attr), getattr(pool, attr)
                    if got != want or type(got) is not type(want):
                        res.fail("passthrough-" + attr, f"{tag}: Standardiser.{attr}={got!r} but pool.{attr}={want!r}")
                        return res
    except Exception as e:
        res.fail("unexpected-exception", f"{type(e).__name__}: {e} in history {p}")
        return res
    frac_lim = any(isinstance(p[k], float) and p[k] not in (INF, -INF) and p[k] != int(p[k]) for k in ("min", "max", "surplus", "backlog"))
    res.cls("fractional-limit:" + ("yes" if frac_lim else "no"))
    res.nontrivial = nt
    return res


def check_read(res, m, prevR, Tcur, cur, tag):
    """Read-back: stays while the target is < one granule away, else follows the target"""
    try:
        exact = abs(Fraction(prevR) - Fraction(Tcur)) >= m.g
        flt = abs(prevR - Tcur) >= m.g
    except (TypeError, ValueError, OverflowError):
        res.fail("read-not-finite", f"{tag}: {prevR!r} {Tcur!r}")
        return None
    allowed = set()
    for far in {exact, flt}:
        allowed.add(Tcur if far else prevR)
    if cur not in allowed:
        res.fail("read-stability", f"{tag}: previous read-back {prevR!r}, target.demand {Tcur!r}, granularity {m.g}: read {cur!r}, expected one of {sorted(allowed)}")
        return None
    if not abs(Fraction(cur) - Fraction(Tcur)) < m.g and exact == flt:
        res.fail("read-granule", f"{tag}: read {cur!r} is >= one granule from target.demand {Tcur!r}")
        return None
    return "resync" if (cur == Tcur and cur != prevR) else "stable"


# ---------------------------------------------------------------- increments (metamorphic)
@st.composite
def inc_case(draw):
    p = draw(params())
    p["supply"] = draw(st.integers(0, 400))
    p["demand0"] = draw(st.integers(-40, 400))
    p["start"] = draw(st.one_of(st.integers(-40, 400), dyadic(-40, 400)))
    p["n"] = draw(st.integers(1, 70))
    return p


def run_increments(p) -> Result:
    res = Result()
    try:
        poolA, stdA = build(p)
        poolB, stdB = build(p)
        stdA.demand = p["start"]
        stdB.demand = p["start"]
        for _ in range(p["n"]):
            stdA.demand += 1
        stdB.demand += p["n"]
        a = (poolA.demand, stdA.demand)
        b = (poolB.demand, stdB.demand)
    except Exception as e:
        res.fail("unexpected-exception", f"{type(e).__name__}: {e} in {p}")
        return res
    # the accumulated (read-back) value must agree always; the forwarded value is a function of
    # the *written* value (floor, then clamp), so it is compared when no limit clipped the sum
    clipped = b[1] != p["start"] + p["n"] or stdA_first_clipped(p)
    if a[1] != b[1] or (not clipped and a[0] != b[0]):
        res.fail("increments-differ", f"{p['n']} x '+= 1' gives (target, readback)={a}, one '+= {p['n']}' gives {b} for {p}")
    res.cls("clipped:" + str(bool(clipped)))
    res.cls("gran:" + ("1" if p["gran"] == 1 else "int" if _is_int(p["gran"]) else "frac"))
    res.nontrivial = p["n"] >= 2 and p["gran"] != 1
    return res


def stdA_first_clipped(p):
    """Was the start value itself clipped by a limit (then the two stacks start from a clipped value)?"""
    m = Model(p)
    return m.C(Fraction(p["start"]), p["supply"]) != Fraction(p["start"])


def tests(tier):
    return [
        TestDef("history", run_history, strategy=history(), quick=12000, thorough=600000),
        TestDef("increments", run_increments, strategy=inc_case(), quick=4000, thorough=200000),
    ]
