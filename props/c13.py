"""C13 - The daemon runs its configured pipeline until stopped; failures set exit status"""
import json
import os

from hypothesis import strategies as st

from engines.daemon_proc import MOD, Daemon
from vlib.core import Result, TestDef
from vlib.yamlemit import emit_document

ID = "C13"
LEVEL = "fault_enumeration"
RULE = (
    "Hypothesis-generated process-level runs of `python -m cobald.daemon <config> --log-target <file>`: YAML configurations (pipeline "
    "of 1-5 elements mixing !Tag and __type__ forms over instrumented fixture classes and shipped classes, optional logging section, "
    "optional extra plugin section) and Python configurations (1-3 pipelines built with >> and bound to names), with 0-4 services "
    "of flavours asyncio / trio / threading among the elements; scenario kinds: valid -> SIGINT after every service logged m beats; "
    "valid + one service failing (raise / non-None return) after k beats; invalid configuration (YAML syntax error, unknown section, "
    "missing pipeline, unknown tag, bad keyword, constructor raising, Python config raising / SyntaxError, unknown extension, missing "
    "file). Oracle from the child's exit status, its log file and an event file written by the fixtures: every object constructed "
    "once inside a running asyncio loop of the daemon process, every service started exactly once and beating until the signal, "
    "coroutine services cancelled and exit status 0 after SIGINT; non-zero exit by itself plus an error on the log for failures and "
    "invalid configurations. Non-trivial = >= 2 services of different flavours, or a failing service with bystanders, or an invalid "
    "configuration other than a missing file; distinct = canonical JSON of the case."
)
ASSUMPTIONS = [
    "signals are sent only after the daemon is observably up; bounded waits of 20 s stand for 'eventually'",
    "a generated logging section keeps a file handler on the runtime log (a bare dictConfig would remove the --log-target handler)",
]
BOUND = 20
SERVICES = {"FxSvcAsyncio": "asyncio", "FxSvcTrio": "trio", "FxSvcThread": "threading", "FxSvcCtrl": "trio", "FxSvcParked": "asyncio", "FxGc": "threading", "FxSvcUnhashable": "threading", "FxSvcEqual": "asyncio"}
SILENT = {"FxSvcParked"}  # services that do not beat: judged by run-start / cancelled / not ending early
SHIPPED_MIDDLE = [("Buffer", "cobald.decorator.buffer.Buffer", {"window": 5}), ("Standardiser", "cobald.decorator.standardiser.Standardiser", {"minimum": 0}),
                  ("Logger", "cobald.decorator.logger.Logger", {"name": "verif"}), ("Limiter", "cobald.decorator.limiter.Limiter", {"maximum": 10})]
SHIPPED_HEAD = [("LinearController", "cobald.controller.linear.LinearController", {"interval": 1}),
                ("RelativeSupplyController", "cobald.controller.relative_supply.RelativeSupplyController", {"interval": 1})]
INVALID = ["section-plugin-raises", "logging-invalid", "yaml-syntax", "unknown-section", "missing-pipeline", "unknown-tag", "bad-keyword", "constructor-raises", "py-raises", "py-syntax", "py-ext-pyc",
           "ext-txt", "ext-json", "ext-none", "missing-file"]


@st.composite
def pipeline(draw, prefix):
    n = draw(st.integers(1, 5))
    elems = []
    for i in range(n):
        name = f"{prefix}e{i}"
        form = draw(st.sampled_from(["tag", "tag", "type"]))
        if i == n - 1:
            if draw(st.integers(0, 3)) == 0:
                # a pool that is a sized container - empty (falsy) or not
                elems.append({"cls": "FxPoolSized", "name": name, "form": form, "kw": {"name": name, "size": draw(st.sampled_from([0, 0, 2]))}})
            else:
                elems.append({"cls": "FxPool", "name": name, "form": form, "kw": {"name": name}})
        elif i == 0 and draw(st.booleans()):
            if draw(st.booleans()):
                tag, path, kw = draw(st.sampled_from(SHIPPED_HEAD))
                elems.append({"cls": tag, "path": path, "name": None, "form": form, "kw": dict(kw)})
            else:
                cls = draw(st.sampled_from(["FxCtrl", "FxSvcCtrl"]))
                elems.append({"cls": cls, "name": name, "form": form, "kw": {"name": name}})
        else:
            kind = draw(st.sampled_from(["fx", "svc", "svc", "svc", "svc", "shipped"]))
            if kind == "shipped":
                tag, path, kw = draw(st.sampled_from(SHIPPED_MIDDLE))
                elems.append({"cls": tag, "path": path, "name": None, "form": form, "kw": dict(kw)})
            elif kind == "svc":
                cls = draw(st.sampled_from(["FxSvcAsyncio", "FxSvcTrio", "FxSvcThread", "FxSvcAsyncio", "FxSvcTrio", "FxSvcThread", "FxSvcParked", "FxGc", "FxSvcUnhashable", "FxSvcEqual", "FxSvcEqual"]))
                elems.append({"cls": cls, "name": name, "form": form, "kw": {"name": name}})
            else:
                elems.append({"cls": "FxDeco", "name": name, "form": form, "kw": {"name": name}})
    return elems


@st.composite
def case(draw):
    lang = draw(st.sampled_from(["yaml", "yaml", "py"]))
    kind = draw(st.sampled_from(["valid-sigint", "valid-sigint", "valid-fail", "invalid"]))
    pause = draw(st.sampled_from([None, None, 1, 3, 10])) if lang == "py" else None
    pipes = [draw(pipeline("p0"))] if lang == "yaml" else [draw(pipeline(f"p{i}")) for i in range(draw(st.integers(1, 3 if pause is None else 7)))]
    c = {"lang": lang, "kind": kind, "pipes": pipes, "logging": lang == "yaml" and draw(st.booleans()), "extra": lang == "yaml" and draw(st.booleans()),
         "beats": draw(st.sampled_from([2, 5])), "flow": draw(st.booleans()), "pause_ms": pause, "plugin_section": lang == "yaml" and draw(st.booleans()),
         "cli": draw(st.sampled_from([[], [], ["--log-level", "DEBUG"], ["--log-level", "warning"], ["--log-journal"]]))}
    c["stem"] = draw(st.sampled_from(["config", "config", "cobald", "trio", "yaml", "logging", "toposort", "my.site-config"]))
    services = [e for p in pipes for e in p if e["cls"] in SERVICES]
    if kind == "valid-fail":
        services = [e for e in services if e["cls"] not in ("FxGc", "FxSvcParked")]  # these never fail on request
        if not services:
            c["kind"] = kind = "valid-sigint"
        else:
            victim = draw(st.sampled_from(services))
            victim["kw"]["fail_after"] = draw(st.sampled_from([1, 3, 8]))
            victim["kw"]["fail_kind"] = draw(st.sampled_from(["raise", "return", "base", "exit"]))
            c["victim"] = victim["name"]
    if kind == "invalid":
        options = [i for i in INVALID if (lang == "yaml") == (not i.startswith("py-"))]
        c["invalid"] = draw(st.sampled_from(options))
    if lang == "py" and kind == "valid-sigint" and draw(st.integers(0, 3)) == 0:
        c["many"] = draw(st.sampled_from([300, 2000, 6000]))  # a configuration module that builds very many pipelines
    if lang == "py" and draw(st.booleans()):
        c["switchinterval"] = draw(st.sampled_from([1e-4, 1e-5]))
    if not c.get("many") and kind != "invalid" and draw(st.integers(0, 2)) == 0:
        # line-level delays inside the service module of the daemon process (installed through sitecustomize on the child's
        # PYTHONPATH): the poller thread and the configuration interleave at line granularity
        c["trace_delay"] = {"files": ["runners/service.py"], "delays_ms": [0, draw(st.sampled_from([1, 3, 8])), draw(st.sampled_from([1, 3, 8]))]}
    if (lang == "py" or c["logging"]) and not c.get("many") and draw(st.integers(0, 2)) == 0:
        c["slow_log"] = draw(st.sampled_from([0.001, 0.005, 0.02]))  # a slow log sink on the runtime's own loggers
    return c


def element_node(e, flow):
    kw = [[k, {"s": v}] for k, v in e["kw"].items()]
    if e["form"] == "type":
        path = e.get("path") or f"{MOD}.{e['cls']}"
        return {"m": [["__type__", {"s": path}]] + kw, "flow": flow}
    if not kw:
        return {"t": e["cls"], "n": None}
    return {"t": e["cls"], "n": {"m": kw, "flow": flow}}


def yaml_text(c, logfile):
    sections = []
    inv = c.get("invalid")
    elems = [dict(e, kw=dict(e["kw"])) for e in c["pipes"][0]]
    nodes = [element_node(e, c["flow"]) for e in elems]
    if inv == "unknown-tag":
        nodes.insert(0, {"t": "NoSuchPlugin", "n": {"m": [["a", {"s": 1}]], "flow": True}})
    elif inv == "bad-keyword":
        nodes[-1] = {"t": "FxPool", "n": {"m": [["name", {"s": "x"}], ["fail", {"s": False}], ["nope", {"s": 1}]], "flow": True}}
        nodes.insert(0, {"t": "FxDeco", "n": {"m": [["not_a_parameter", {"s": 1}]], "flow": True}})
    elif inv == "constructor-raises":
        nodes[-1] = {"t": "FxPool", "n": {"m": [["name", {"s": "x"}], ["fail", {"s": True}]], "flow": True}}
    if inv != "missing-pipeline":
        sections.append(["pipeline", {"l": nodes, "flow": False}])
    if (c["logging"] or inv == "missing-pipeline") and inv != "logging-invalid":
        handlers = [["file", {"m": [["class", {"s": "logging.FileHandler"}], ["filename", {"s": logfile}]], "flow": False}]]
        extra_loggers = []
        if c.get("slow_log"):
            handlers.append(["slow", {"m": [["()", {"s": f"{MOD}.SlowHandler"}], ["delay", {"s": c["slow_log"]}]], "flow": False}])
            extra_loggers = [["loggers", {"m": [["cobald.runtime", {"m": [["level", {"s": "DEBUG"}], ["handlers", {"l": [{"s": "slow"}], "flow": True}]], "flow": False}]], "flow": False}]]
        sections.append(["logging", {"m": [["version", {"s": 1}], ["handlers", {"m": handlers, "flow": False}]] + extra_loggers +
                                           [["root", {"m": [["level", {"s": "INFO"}], ["handlers", {"l": [{"s": "file"}], "flow": True}]], "flow": False}]], "flow": False}])
    if c["extra"]:
        sections.append(["__config_test", {"m": [["a", {"s": 1}]], "flow": True}])
    if inv == "unknown-section":
        sections.append(["surprise_section", {"m": [["a", {"s": 1}]], "flow": True}])
    if inv == "section-plugin-raises":
        sections.append(["verifsection", {"m": [["fail", {"s": True}]], "flow": True}])
    elif c.get("plugin_section"):
        sections.append(["verifsection", {"m": [["a", {"s": 1}]], "flow": True}])
    if inv == "logging-invalid":
        sections.append(["logging", {"m": [["version", {"s": 1}], ["handlers", {"m": [["h", {"m": [["class", {"s": "logging.NoSuchHandler"}]], "flow": True}]], "flow": False}]], "flow": False}])
    text = emit_document({"m": sections, "flow": False})
    if inv == "yaml-syntax":
        text += "  broken: [unclosed\n : :\n"
    return text


def py_text(c):
    lines = [f"from {MOD} import *", "from cobald.controller.linear import LinearController",
             "from cobald.controller.relative_supply import RelativeSupplyController", "from cobald.decorator.buffer import Buffer",
             "from cobald.decorator.standardiser import Standardiser", "from cobald.decorator.logger import Logger",
             "from cobald.decorator.limiter import Limiter", ""]
    if c.get("switchinterval"):
        # schedule perturbation from inside the (Python) configuration: frequent thread switches while objects are built
        lines.insert(0, f"import sys; sys.setswitchinterval({c['switchinterval']!r})")
    if c.get("slow_log"):
        lines += ["import logging as _logging", f"_slow = SlowHandler({c['slow_log']!r})", "_logging.getLogger('cobald.runtime').addHandler(_slow)",
                  "_logging.getLogger('cobald.runtime').setLevel(_logging.DEBUG)"]
    if c.get("invalid") == "py-raises":
        lines.append("raise RuntimeError('configuration module fails on purpose')")
    for i, pipe in enumerate(c["pipes"]):
        parts = []
        for j, e in enumerate(pipe):
            args = ", ".join(f"{k}={v!r}" for k, v in e["kw"].items())
            parts.append(f"{e['cls']}({args})" if j == len(pipe) - 1 else f"{e['cls']}.s({args})")
        lines.append(f"pipeline_{i} = " + " >> ".join(parts))
        if c.get("pause_ms"):
            # the configuration takes its time between two pipelines (e.g. it queries a remote site): service definitions
            # interleave with the polling cycles of the running runtime
            lines.append(f"__import__('time').sleep({c['pause_ms'] / 1000!r})")
    if c.get("many"):
        lines += ["many = []", f"for i in range({c['many']}):", "    many.append(FxSvcQuiet.s(name='q%d' % i) >> FxPool(name='qp%d' % i, quiet=True))"]
    if c.get("invalid") == "py-syntax":
        lines.append("def (:")
    return "\n".join(lines) + "\n"


def run_case(c) -> Result:
    res = Result()
    inv = c.get("invalid")
    # the file may be called like a module the daemon needs; it lives in a sub-directory that is not on the module search path
    stem = c.get("stem", "config")
    name = {"ext-txt": "config.txt", "ext-json": "config.json", "ext-none": "config", "py-ext-pyc": "config.pyc"}.get(inv, "conf/" + stem + (".yaml" if c["lang"] == "yaml" else ".py"))
    d = Daemon(name, "", extra_args=c.get("cli", []), create=False, trace_delay=c.get("trace_delay"))
    try:
        text = yaml_text(c, d.log) if c["lang"] == "yaml" else py_text(c)
        if inv == "py-ext-pyc":
            # a valid configuration module, but compiled: an extension that is neither .py nor .yaml/.yml
            import py_compile

            with open(d.config + ".src", "w") as f:
                f.write(text)
            py_compile.compile(d.config + ".src", cfile=d.config, doraise=True)
        elif inv != "missing-file":
            with open(d.config, "w") as f:
                f.write(text)
        d.start()
        fixtures = [e for p in c["pipes"] for e in p if e["name"]]
        services = [e for e in fixtures if e["cls"] in SERVICES]
        desc = f"{c['lang']} config, kind {c['kind']}{'/' + inv if inv else ''}, elements {[[e['cls'] for e in p] for p in c['pipes']]}"
        if c["kind"] == "valid-sigint":
            m = c["beats"]

            def up(ev):
                beats = {}
                for e in ev:
                    if e["ev"] == "beat":
                        beats[e["name"]] = max(beats.get(e["name"], 0), e["n"])
                constructed = {e["name"] for e in ev if e["ev"] == "constructed"}
                started = {e["name"] for e in ev if e["ev"] == "run-start"}
                return all(beats.get(s["name"], 0) >= m for s in services if s["cls"] not in SILENT) and all(s["name"] in started for s in services) \
                    and all(f["name"] in constructed for f in fixtures) and (not c.get("many") or len(started) >= c["many"] + len(services))

            ok, ev = d.wait_for(up, BOUND)
            if not ok:
                rc = d.proc.poll()
                started = {e["name"] for e in ev if e["ev"] == "run-start"}
                missing = [s["name"] for s in services if s["name"] not in started]
                if rc is not None:
                    res.fail("daemon-exited", f"valid configuration but the daemon exited with status {rc} ({desc}); log tail: {d.read_log()[-600:]!r} output: {d.output()[-400:]!r}")
                else:
                    res.expensive = True
                    res.fail("services-not-running", f"after {BOUND}s services {missing} never started / not all services beat ({desc}); events: {[(e['ev'], e['name']) for e in ev][:12]}\n{text}")
                return res
            if any(s["cls"] in SILENT for s in services):
                import time as _time

                _time.sleep(0.4)  # let the collector service run a few times while the silent services are parked
                if d.proc.poll() is not None:
                    res.fail("daemon-exited", f"valid configuration but the daemon exited by itself with status {d.proc.poll()} ({desc}); log tail: {d.read_log()[-600:]!r}")
                    return res
            d.sigint()
            rc = d.wait_exit(BOUND)
            ev = __import__("engines.daemon_proc", fromlist=["read_events"]).read_events(d.events)
            if rc is None:
                res.expensive = True
                res.fail("sigint-ignored", f"the daemon did not exit within {BOUND}s after SIGINT ({desc})")
                return res
            if rc != 0:
                res.fail("exit-status-after-sigint", f"exit status {rc} after SIGINT ({desc}); log tail {d.read_log()[-500:]!r}")
            pid = d.proc.pid
            for f in fixtures:
                cons = [e for e in ev if e["ev"] == "constructed" and e["name"] == f["name"]]
                if len(cons) != 1:
                    res.fail("constructed-count", f"{f['cls']} {f['name']} constructed {len(cons)} times ({desc})")
                    continue
                runtime_loops = {e.get("loop") for e in ev if e["ev"] == "run-start" and e.get("flavour") == "asyncio"}
                if not cons[0]["loop_running"] or cons[0]["pid"] != pid:
                    res.fail("constructed-outside-loop", f"{f['cls']} {f['name']} was constructed without a running asyncio event loop (pid {cons[0]['pid']} vs {pid}) ({desc})")
                elif not cons[0].get("main_thread") or (runtime_loops and cons[0].get("loop") not in runtime_loops):
                    res.fail("constructed-in-foreign-loop", f"{f['cls']} {f['name']} was constructed in a loop that is not the runtime's asyncio loop (main thread: {cons[0].get('main_thread')}, loop {cons[0].get('loop')} vs services' {runtime_loops}) ({desc})")
            if c.get("many"):
                quiet = {}
                for e in ev:
                    if e["ev"] == "run-start" and e["name"].startswith("q"):
                        quiet[e["name"]] = quiet.get(e["name"], 0) + 1
                if len(quiet) != c["many"] or any(v != 1 for v in quiet.values()):
                    res.fail("service-start-count", f"{c['many']} silent services configured, {len(quiet)} started, {sum(1 for v in quiet.values() if v != 1)} of them more than once ({desc})")
            for s in services:
                starts = [e for e in ev if e["ev"] == "run-start" and e["name"] == s["name"]]
                if len(starts) != 1:
                    res.fail("service-start-count", f"service {s['cls']} {s['name']} started {len(starts)} times ({desc})")
                beats = [e for e in ev if e["ev"] == "beat" and e["name"] == s["name"]]
                if s["cls"] in SILENT:
                    ended = [e for e in ev if e["ev"] == "run-end" and e["name"] == s["name"] and e["t"] < d.t_signal]
                    if ended:
                        res.fail("service-stopped-early", f"service {s['name']} ({s['cls']}) ended {d.t_signal - ended[0]['t']:.2f}s before the signal ({desc})")
                elif not beats or beats[-1]["t"] < d.t_signal - 1.5:
                    res.fail("service-stopped-early", f"service {s['name']} last beat {d.t_signal - (beats[-1]['t'] if beats else 0):.2f}s before the signal ({desc})")
                if SERVICES[s["cls"]] != "threading" and not any(e["ev"] == "cancelled" and e["name"] == s["name"] for e in ev):
                    res.fail("service-not-cancelled", f"{SERVICES[s['cls']]} service {s['name']} was not cancelled on SIGINT ({desc})")
        else:
            rc = d.wait_exit(BOUND)
            log = d.read_log()
            if rc is None:
                ev = __import__("engines.daemon_proc", fromlist=["read_events"]).read_events(d.events)
                res.expensive = True
                res.fail("stays-up", f"the daemon is still up {BOUND}s after {'the failure of ' + str(c.get('victim')) if c['kind'] == 'valid-fail' else 'loading an invalid configuration'} ({desc}); failing events: {[e for e in ev if e['ev'] == 'failing']}")
                return res
            if rc == 0:
                res.fail("exit-status-zero", f"exit status 0 although {'a service failed' if c['kind'] == 'valid-fail' else 'the configuration is invalid'} ({desc}); log tail {log[-400:]!r}")
            if not log.strip() or not ("Traceback" in log or "rror" in log or "xception" in log):
                res.fail("no-error-on-log", f"exit status {rc} but the runtime log shows no error ({desc}); log: {log[-600:]!r}")
            if c["kind"] == "valid-fail":
                ev = __import__("engines.daemon_proc", fromlist=["read_events"]).read_events(d.events)
                if not any(e["ev"] == "failing" for e in ev):
                    res.fail("exited-before-failure", f"the daemon exited with {rc} before the service failed ({desc}); log tail {log[-500:]!r}")
    finally:
        d.cleanup()
    flavours = {SERVICES[e["cls"]] for p in c["pipes"] for e in p if e["cls"] in SERVICES}
    nsvc = sum(1 for p in c["pipes"] for e in p if e["cls"] in SERVICES)
    res.cls("lang:" + c["lang"], "kind:" + c["kind"] + (":" + inv if inv else ""), "services:%d" % min(nsvc, 4), "flavours:%d" % len(flavours),
            "pipes:%d" % len(c["pipes"]), "logging:" + str(c["logging"]))
    res.cls("file-name:" + ("plain" if c.get("stem", "config") == "config" else "like-a-module"))
    res.nontrivial = len(flavours) >= 2 or (c["kind"] == "valid-fail" and nsvc >= 2) or (inv is not None and inv != "missing-file")
    return res


def tests(tier):
    return [TestDef("daemon", run_case, strategy=case(), quick=128, thorough=1600, shards_quick=16, shrink_budget=8, slow=True)]
