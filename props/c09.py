"""C09 - Periodic services act once per interval, for as long as they run"""
import trio
from hypothesis import strategies as st

from cobald.composite.factory import FactoryPool
from cobald.controller.linear import LinearController
from cobald.controller.relative_supply import RelativeSupplyController
from cobald.controller.stepwise import stepwise
from cobald.controller.switch import DemandSwitch
from cobald.decorator.buffer import Buffer

from engines.trio_clock import run_virtual
from vlib.core import Result, TestDef
from vlib.pools import StatePool
from vlib.strategies import dyadic

ID = "C09"
LEVEL = "exploration"
RULE = (
    "Every shipped periodic service (LinearController, RelativeSupplyController, Stepwise, DemandSwitch with real Linear slaves, "
    "Buffer, FactoryPool) is constructed on a recording pool and its real run() coroutine is driven by trio's virtual clock "
    "(MockClock, autojump) for 0-60 periods with Hypothesis-generated intervals (dyadics and floats in [1e-3, 1e4]) and timed "
    "environment actions (pool state changes; demand writes through the Buffer; outside changes of the pool's demand; demand writes "
    "to the FactoryPool) placed a little before, on, a little after and a third of a period away from period boundaries. Oracle: "
    "timestamps and values of every demand write reaching the recording pool (step at t0, then exactly one per interval; the Linear "
    "rate bound over every pair of instants; Buffer: target writes only at k*window and target == last buffered value after each "
    "boundary; FactoryPool: factory calls/releases only at k*interval, k>=1) and any exception leaving run(). Non-trivial = >= 3 "
    "periods and >= 1 action within 1e-3 period of a boundary; distinct = canonical JSON of the case."
)
ASSUMPTIONS = [
    "time comparisons use a relative tolerance of 1e-9 of the run length (the virtual clock accumulates float additions)",
    "an action placed nominally on a boundary (within 1e-9 relative) may legally take effect before or after that boundary's step",
    "controller pools are kept in states in which every step must write (low utilisation or high allocation), so steps are observable as writes",
]

SERVICES = ["linear", "relative", "stepwise", "switch", "buffer", "factory"]
OFFSETS = ["before", "on", "after", "third-before", "third-after"]
interval_st = st.one_of(dyadic(0, 64, 4).filter(lambda x: x > 0), st.integers(1, 100), st.floats(1e-3, 1e4),
                        st.sampled_from([0.3, 0.1, 1, 10.0, 30]))
value = st.one_of(st.integers(0, 100), dyadic(0, 100))


@st.composite
def case(draw):
    svc = draw(st.sampled_from(SERVICES))
    m = draw(st.one_of(st.integers(0, 8), st.integers(0, 60)))
    dead = draw(st.booleans())  # the pool may rest in the dead band (no condition holds) for some periods
    actions = []
    for _ in range(draw(st.integers(0, 12))):
        a = {"k": draw(st.integers(0, m + 1)), "off": draw(st.sampled_from(OFFSETS))}
        if svc in ("linear", "relative", "stepwise", "switch"):
            modes = ["down", "up"] + (["dead", "dead"] if svc in ("linear", "relative") and dead else [])
            a["what"] = {"mode": draw(st.sampled_from(modes)), "supply": draw(value)}
        elif svc == "buffer":
            a["what"] = draw(st.one_of(st.fixed_dictionaries({"write": value}), st.fixed_dictionaries({"write": value}),
                                       st.fixed_dictionaries({"poolset": value})))
        else:
            # requests, and children whose supply catches up with - or exactly meets - the request
            a["what"] = draw(st.sampled_from([{"D": draw(value)}, {"D": draw(value)}, {"D": 4 * draw(st.integers(0, 6))}, {"fulfil": True}, {"supfit": True},
                                               {"D": draw(value), "supfit": True}, {"D": draw(value), "supfit": True}]))
        actions.append(a)
    return {"service": svc, "interval": draw(interval_st), "periods": m, "frac": draw(st.sampled_from([0.25, 0.5, 0.75])),
            "rate": draw(st.one_of(st.integers(1, 10), dyadic(0, 10).filter(lambda x: x > 0))), "actions": actions,
            "ctor": draw(st.sampled_from(["direct", "template"])), "D0": draw(st.sampled_from([0, 0, 3, 9])),
            "dead": dead and svc in ("linear", "relative"), "pre_write": draw(st.one_of(st.none(), value)) if svc == "buffer" else None}


class TooManySteps(Exception):
    """harness guard: a service that stops sleeping would spin forever under the autojump clock"""


class TimedPool(StatePool):
    """records (virtual time, value) for every demand write"""

    read_limit = None

    def __init__(self, **kw):
        self._utilisation = 0.0
        self.reads = 0
        super().__init__(**kw)
        self.timed = []
        self.on_write = lambda pool, v: pool.timed.append((trio.current_time(), v))

    @property
    def utilisation(self):
        # every regulation step reads the utilisation: a service that stops sleeping is noticed even if it never writes
        self.reads += 1
        if self.read_limit is not None and self.reads > self.read_limit:
            raise TooManySteps(f"{self.reads} regulation steps where at most {self.read_limit} fit")
        return self._utilisation

    @utilisation.setter
    def utilisation(self, value):
        self._utilisation = value


def action_time(a, interval):
    base = a["k"] * interval
    eps = interval * 1e-3
    t = base + {"before": -eps, "on": 0.0, "after": eps, "third-before": -interval / 3, "third-after": interval / 3}[a["off"]]
    return max(t, 0.0)


def run_case(spec) -> Result:
    res = Result()
    svc, interval, m = spec["service"], spec["interval"], spec["periods"]
    duration = (m + spec["frac"]) * interval
    tol = 1e-9 * max(duration, interval)
    env_log = []
    timeline = []
    pool = TimedPool(demand=10, supply=20, utilisation=0.0, allocation=0.0)
    limit = 5 * (m + 5) + 3 * len(spec["actions"])

    def on_write(p, v):
        p.timed.append((trio.current_time(), v))
        timeline.append((trio.current_time(), "forward", v))
        if len(p.timed) > limit:
            raise TooManySteps(f"{len(p.timed)} writes within {m} periods")

    pool.on_write = on_write
    pool.read_limit = 40 * (m + 5) + 20 * len(spec["actions"])
    factory_calls = []
    made = []
    template = spec["ctor"] == "template"
    try:
        if svc == "linear":
            kw = dict(low_utilisation=0.5, high_allocation=0.5, rate=spec["rate"], interval=interval)
            service = (LinearController.s(**kw) >> pool) if template else LinearController(pool, **kw)
        elif svc == "relative":
            kw = dict(low_utilisation=0.5, high_allocation=0.5, low_scale=0.5, high_scale=2, interval=interval)
            service = (RelativeSupplyController.s(**kw) >> pool) if template else RelativeSupplyController(pool, **kw)
        elif svc == "stepwise":
            ctl = stepwise(lambda p, i: p.demand - 1 if p.utilisation < 0.5 else p.demand + 1)
            ctl.add(lambda p, i: p.demand - 2 if p.utilisation < 0.5 else p.demand + 2, supply=50)
            service = (ctl.s(interval=interval) >> pool) if template else ctl(pool, interval=interval)
        elif svc == "switch":
            service = DemandSwitch(pool, LinearController(pool, rate=spec["rate"]), 5, LinearController(pool, rate=spec["rate"] * 2),
                                   interval=interval)
        elif svc == "buffer":
            service = (Buffer.s(window=interval) >> pool) if template else Buffer(pool, window=interval)
        else:
            def factory():
                c = TimedPool(demand=4, supply=0)
                factory_calls.append(trio.current_time())
                if len(factory_calls) > 50 * (m + 5):
                    raise TooManySteps("factory called without end")
                made.append(c)
                return c
            service = FactoryPool(factory=factory, interval=interval)
            service.demand = spec.get("D0", 0)  # requested before the service starts running
    except Exception as e:
        res.fail("ctor", f"{type(e).__name__}: {e}")
        return res

    if spec.get("pre_write") is not None:
        service.demand = spec["pre_write"]  # written after construction, before the service starts running
        timeline.append((-1.0, "bufwrite", spec["pre_write"]))
    actions = sorted(((action_time(a, interval), i, a) for i, a in enumerate(spec["actions"])), key=lambda x: (x[0], x[1]))
    actions = [x for x in actions if x[0] < duration]

    async def env():
        for t, _i, a in actions:
            await trio.sleep_until(t)
            now = trio.current_time()
            w = a["what"]
            if "mode" in w:
                pool.utilisation, pool.allocation = {"down": (0.0, 0.0), "up": (1.0, 1.0), "dead": (0.5, 0.5)}[w["mode"]]
                pool.supply = w["supply"]
            elif "write" in w:
                service.demand = w["write"]
                timeline.append((now, "bufwrite", w["write"]))
            elif "poolset" in w:
                pool._demand = w["poolset"]
                timeline.append((now, "poolset", w["poolset"]))
            elif "fulfil" in w:
                for c in made:
                    c.supply = c.demand
            elif "supfit" in w:
                if "D" in w:
                    service.demand = w["D"]
                if made and service.demand >= sum(c.supply for c in made[1:]):
                    made[0].supply = service.demand - sum(c.supply for c in made[1:])
            else:
                service.demand = w["D"]
            env_log.append((now, dict(w, S=sum(c.supply for c in made))))

    raised = []
    samples = []

    async def sampler():
        # the pool's demand as seen by an observer every quarter period (also while no step writes)
        while True:
            samples.append((trio.current_time(), pool.demand))
            await trio.sleep(interval / 4)

    async def run_service():
        try:
            await service.run()
        except trio.Cancelled:
            raise
        except BaseException as e:  # noqa
            raised.append(e)

    async def main():
        with trio.move_on_after(duration):
            async with trio.open_nursery() as nursery:
                nursery.start_soon(run_service)
                nursery.start_soon(env)
                if svc in ("linear", "switch"):
                    nursery.start_soon(sampler)
                await trio.sleep_forever()

    try:
        run_virtual(main)
    except BaseException as e:
        res.fail("harness-run", f"{type(e).__name__}: {e!r}")
        return res
    if raised:
        e = raised[0]
        res.fail("run-raises", f"{svc}.run() raised {type(e).__name__}: {e} (interval {interval!r})")
        return res

    def near_boundary(t):
        k = round(t / interval)
        return abs(t - k * interval) <= tol

    def on_grid(t, kmin):
        k = round(t / interval)
        return k >= kmin and abs(t - k * interval) <= tol

    if svc in ("linear", "relative", "stepwise", "switch"):
        times = [t for t, _v in pool.timed]
        if spec.get("dead") and svc == "linear":
            # steps in the dead band do not write: every write must still lie on the step grid, at most one per period
            ks = []
            for t in times:
                if not on_grid(t, 0):
                    res.fail("step-time", f"{svc}: demand written at {t!r}, off the step grid of {interval!r}")
                    return res
                ks.append(round(t / interval))
            if len(set(ks)) != len(ks):
                res.fail("step-count", f"{svc}: more than one step in a period: {times[:8]}")
                return res
        else:
            if len(times) != m + 1:
                res.fail("step-count", f"{svc}: {len(times)} steps in {duration!r}s with interval {interval!r}, expected {m + 1}; times {times[:8]}...")
                return res
            for k, t in enumerate(times):
                if abs(t - k * interval) > tol:
                    res.fail("step-time", f"{svc}: step {k} at {t!r}, expected {k * interval!r}")
                    return res
        if svc in ("linear", "switch"):
            rate = spec["rate"] * (2 if svc == "switch" else 1)
            pts = sorted([(0.0, 10)] + pool.timed + samples)
            for i in range(len(pts)):
                for j in range(i + 1, len(pts)):
                    span = pts[j][0] - pts[i][0]
                    if abs(pts[j][1] - pts[i][1]) > rate * (span + interval) * (1 + 1e-9) + 1e-9:
                        res.fail("linear-rate-bound", f"{svc}: demand moved {pts[i][1]!r} -> {pts[j][1]!r} within {span!r}s, more than rate*(span+interval)={rate * (span + interval)!r}")
                        return res
    elif svc == "buffer":
        for t, v in pool.timed:
            if not on_grid(t, 0):
                res.fail("buffer-forwards-between-boundaries", f"target written at {t!r} (value {v!r}), window {interval!r}")
                return res
        # replay the single, truly ordered event sequence (buffer writes, outside changes, forwarded writes)
        for k in range(m + 1):
            tb = k * interval
            buffered, target = 10, 10
            ok, forwards, in_window = False, 0, False
            seq = timeline + [(float("inf"), "end", None)]
            for t, kind, v in seq:
                if t >= tb - tol and not in_window:
                    in_window = True
                if in_window and kind != "forward" and buffered == target:
                    ok = True  # a position inside the window at which no forwarding was needed
                if t > tb + tol:
                    break
                if kind == "bufwrite":
                    buffered = v
                elif kind == "poolset":
                    target = v
                elif kind == "forward":
                    if in_window:
                        forwards += 1
                        if v == buffered:
                            ok = True
                    target = v
                if in_window and buffered == target:
                    ok = True
            if not ok or forwards > 1:
                res.fail("buffer-boundary-value", f"boundary {k} (t={tb!r}): target not made equal to the most recently buffered value ({forwards} forwards); events {timeline}")
                return res
    else:
        for t in factory_calls:
            if not on_grid(t, 1):
                res.fail("factory-adjusts-off-grid", f"factory called at {t!r}, interval {interval!r}")
                return res
        for c in made:
            for t, v in c.timed:
                if not on_grid(t, 1):
                    res.fail("factory-adjusts-off-grid", f"child released at {t!r}, interval {interval!r}")
                    return res
        # one adjustment per interval: replay demand timeline; whenever the demand at boundary k exceeds what the
        # children cover, a spawn must be seen at that very boundary
        covered = 0
        for k in range(1, m + 1):
            tb = k * interval
            if any(tb - tol <= t <= tb + tol for t, w in env_log):
                break  # an action on the boundary: either state may be seen, stop the exact replay here
            d0 = [spec.get("D0", 0)]
            D = ([w["D"] for t, w in env_log if t < tb - tol and "D" in w][-1:] or d0)[0]
            S = ([w["S"] for t, w in env_log if t < tb - tol][-1:] or [0])[0]
            spawned_now = sum(1 for t in factory_calls if abs(t - tb) <= tol)
            released_now = sum(1 for c in made for t, v in c.timed if abs(t - tb) <= tol)
            if D > covered and S <= D and spawned_now == 0:
                res.fail("factory-missed-adjustment", f"boundary {k}: demand {D!r} > covered {covered!r} (supply {S!r} not above the demand) but no child spawned at t={tb!r}")
                return res
            covered += 4 * spawned_now - 4 * released_now
    near = sum(1 for t, _w in env_log if near_boundary(t) or any(abs(t - k * interval) <= 2e-3 * interval for k in (round(t / interval),)))
    res.cls("service:" + svc, "periods:" + ("0" if m == 0 else "1-2" if m < 3 else "3-9" if m < 10 else "10+"),
            "near-boundary-actions:%d" % min(near, 5), "ctor:" + spec["ctor"])
    res.nontrivial = m >= 3 and near >= 1
    return res


def tests(tier):
    return [TestDef("periodic", run_case, strategy=case(), quick=6000, thorough=200000)]
