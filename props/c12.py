"""C12 - Runtime lifecycle: exclusive accept, shutdown always completes, restart possible"""
from hypothesis import strategies as st

from engines.runtime_worker import run_scenario
from engines.scenarios import ALL, EXC_NAMES, RETURN_NAMES, accept_delay, cleanup, events, switchinterval
from vlib.core import HarnessError, Result, TestDef

ID = "C12"
LEVEL = "fault_enumeration"
RULE = (
    "Hypothesis-generated multi-episode histories run in one forked process: 1-5 episodes, each with a fresh ServiceRunner whose "
    "accept() runs in the main thread; population at the end in {none, sleeping/beating coroutines with (shielded) cleanup, blocked "
    "threads, threads adopting concurrently}; 0-3 concurrent accept() attempts from other threads on another instance or on the same "
    "instance while it runs; end mode in {shutdown() from an outside thread or from a thread payload at a generated offset after "
    "the runner reported running (including immediately and around the polling period), real SIGINT, a failing payload (Exception / "
    "non-None return), shutdown racing a failure}. Oracle: every concurrent accept raised RuntimeError (within a 5 s bound, while the active runner was still running) and the active "
    "runner kept running (running still set, heartbeats continue, a later execute works); every shutdown() returned and accept() "
    "returned normally (RuntimeError with the failure as cause if one was injected); SIGINT alone makes accept() return normally; "
    "and the next episode's accept() reported running again - after every kind of exit. Non-trivial = >= 2 episodes whose first ended "
    "by failure or interrupt, or a concurrent accept, or a shutdown within one polling period of start; distinct = canonical JSON."
)
ASSUMPTIONS = [
    "shutdown()/KeyboardInterrupt are issued only after the runner reported running (as the statement says); bounded liveness 20 s",
    "a finished ServiceRunner instance is not reused; restart uses a new instance",
]
BOUND = 20
SIMPLE_EXC = [n for n in EXC_NAMES if n not in ("StopIteration", "ExceptionGroup")]


@st.composite
def episode(draw, index):
    base = index * 1000
    # (accept_delay=0 is the boundary at which the polling loop only ever yields through zero-length sleeps)
    ad = draw(st.one_of(accept_delay, accept_delay, accept_delay, accept_delay, st.just(0)))
    payloads, drivers = [], [[]]
    hb = []
    for i, flv in enumerate(ALL):
        if draw(st.booleans()):
            p = {"id": base + 100 + i, "flavour": flv, "role": "heartbeat", "reg": {"how": draw(st.sampled_from(["pre", "pre-service"]))},
                 "program": [["beat", 3, 1000000]], "end": ["forever"], "cleanup": draw(cleanup(flv))}
            payloads.append(p)
            hb.append(p["id"])
    population = draw(st.sampled_from(["none", "coroutines", "blocked-threads", "adopters", "stubborn"]))
    if population == "stubborn":
        # "whatever the payloads are doing": asyncio payloads that keep awaiting inside their cancellation handler
        for i in range(draw(st.integers(1, 3))):
            payloads.append({"id": base + 200 + i, "flavour": "asyncio", "role": "sleeper", "reg": {"how": "pre"}, "program": [["sleep", 600000]],
                             "end": ["forever"], "cleanup": {}, "stubborn": draw(st.sampled_from([1, 2, 4]))})
    if population == "coroutines":
        for i in range(draw(st.integers(1, 4))):
            flv = draw(st.sampled_from(["asyncio", "trio"]))
            payloads.append({"id": base + 200 + i, "flavour": flv, "role": "sleeper", "reg": {"how": "pre"}, "program": [["sleep", 600000]],
                             "end": ["forever"], "cleanup": draw(cleanup(flv))})
    elif population == "blocked-threads":
        for i in range(draw(st.integers(1, 3))):
            payloads.append({"id": base + 200 + i, "flavour": "threading", "role": "blocked", "reg": {"how": "pre"}, "program": [["block", 60000]],
                             "end": ["return", "None"]})
    end = draw(st.sampled_from(["shutdown-outside", "shutdown-outside", "shutdown-thread", "sigint", "failure", "failure+shutdown", "failure+shutdown",
                                "sigint+shutdown", "kbint-payload"]))
    at = draw(st.sampled_from([0, 0, 1, int(ad * 500), int(ad * 1000), int(ad * 1000) + 1, 30, 80]))
    if population == "adopters":
        script = []
        for i in range(draw(st.integers(3, 12))):
            flv = draw(st.sampled_from(ALL))
            payloads.append({"id": base + 300 + i, "flavour": flv, "role": "adopted", "reg": {"how": "outside"}, "program": [["beat", 5, 100000]],
                             "end": ["forever"], "cleanup": {}})
            script.append({"at_ms": max(0, at - 10 + 3 * i), "op": "adopt", "pid": base + 300 + i})
        drivers.append(script)
    if population == "adopters" and draw(st.booleans()):
        # payloads of every flavour that keep adopting from inside the runtime while it is stopped
        for j, flv in enumerate(draw(st.lists(st.sampled_from(ALL), min_size=1, max_size=3, unique=True))):
            program = [["sleep", max(0, at - 6)]]
            for i in range(draw(st.integers(5, 25))):
                cid = base + 600 + 40 * j + i
                payloads.append({"id": cid, "flavour": draw(st.sampled_from(ALL)), "role": "adopted", "reg": {"how": "from"}, "program": [["beat", 5, 100000]],
                                 "end": ["forever"], "cleanup": {}})
                program += [["adopt", cid], ["sleep", 1]]
            payloads.append({"id": base + 590 + j, "flavour": flv, "role": "inside-adopter", "reg": {"how": "pre"}, "program": program,
                             "end": ["forever"] if flv != "threading" else ["return", "None"], "cleanup": {}})
    naccept = draw(st.sampled_from([0, 0, 1, 2, 3]))
    early = []
    for i in range(naccept):
        early.append({"at_ms": draw(st.sampled_from([0, 1, 5])), "op": "accept2", "same": draw(st.integers(0, 3)) == 0})
    if naccept and hb:
        early.append({"at_ms": 8, "op": "await-beats", "pids": hb, "k": 2, "timeout_ms": 5000, "name": "after-accept2"})
        payloads.append({"id": base + 400, "flavour": draw(st.sampled_from(ALL)), "role": "executed", "reg": {"how": "execute"}, "program": [], "end": ["return", "1"]})
        early.append({"at_ms": 8, "op": "execute", "pid": base + 400})
    shift = 25 if naccept else 0
    trigger = {"mode": end, "at_ms": at + shift}
    if end == "shutdown-outside":
        early.append({"at_ms": at + shift, "op": "shutdown"})
        if draw(st.integers(0, 2)) == 0:
            # a concurrent accept on the very same instance while the shutdown request is pending (the polling loop has not yet
            # looked at it): it must be rejected without touching the active runner - the request included
            drivers.append([{"at_ms": at + shift + draw(st.sampled_from([0, 1, 3, 10])), "op": "accept2", "same": True}])
            trigger["accept_during_shutdown"] = True
    elif end in ("sigint", "sigint+shutdown"):
        early.append({"at_ms": at + shift, "op": "sigint"})
        if end == "sigint+shutdown":
            # an explicit shutdown() shortly after (or long after) the interrupt has already ended the runner
            early.append({"at_ms": at + shift + draw(st.sampled_from([0, 1, 5, 30, 80])), "op": "shutdown"})
    elif end == "shutdown-thread":
        payloads.append({"id": base + 500, "flavour": "threading", "role": "shutter", "reg": {"how": "outside"}, "program": [["shutdown"]], "end": ["return", "None"]})
        early.append({"at_ms": at + shift, "op": "adopt", "pid": base + 500})
    if end == "kbint-payload":
        # the interrupt is raised by a payload itself (a thread payload; or an asyncio payload, which makes asyncio abort the loop
        # on its own - not generated together with cancellation-absorbing payloads, DESIGN.md section 11)
        flv = "threading" if population == "stubborn" else draw(st.sampled_from(["threading", "asyncio"]))
        payloads.append({"id": base + 1, "flavour": flv, "role": "failing", "kind": "kbint", "reg": {"how": "pre"},
                         "program": [["sleep", at + shift]], "end": ["raise", "KeyboardInterrupt"]})
    if end in ("failure", "failure+shutdown"):
        k = draw(st.sampled_from(["exc", "exc", "ret"]))
        payloads.append({"id": base + 1, "flavour": draw(st.sampled_from(ALL)), "role": "failing", "kind": k, "reg": {"how": "pre"},
                         "program": [["sleep", at + shift]], "end": ["raise", draw(st.sampled_from(SIMPLE_EXC))] if k == "exc" else ["return", draw(st.sampled_from(RETURN_NAMES))]})
        if end == "failure+shutdown":
            early.append({"at_ms": max(0, at + shift + draw(st.sampled_from([-2, 0, 1, 3, 20, 60]))), "op": "shutdown"})
    drivers[0] = sorted(early, key=lambda s: s["at_ms"])
    return {"runner": "service", "accept_delay": ad, "payloads": payloads, "drivers": drivers, "linger_ms": 20, "trigger": trigger,
            "population": population, "naccept": naccept, "heartbeats": hb, "immediate": end.startswith("shutdown") and at == 0}


@st.composite
def simultaneous_episode(draw, index):
    """two runners call accept() at the same moment; line-level delays inside the guard module vary the interleaving"""
    return {"runner": "service", "accept_delay": 0.01, "payloads": [], "drivers": [], "linger_ms": 20, "population": "none", "naccept": 1,
            "heartbeats": [], "simultaneous": {"run_ms": draw(st.sampled_from([20, 60]))},
            "trigger": {"mode": "simultaneous-accept", "at_ms": 0}}


@st.composite
def history(draw):
    n = draw(st.integers(1, 5))
    eps = []
    sim = draw(st.integers(0, 3)) == 0
    for i in range(n):
        eps.append(draw(simultaneous_episode(i)) if sim and draw(st.booleans()) else draw(episode(i)))
    h = {"episodes": eps, "switchinterval": draw(switchinterval), "bound_s": BOUND}
    if any(e.get("simultaneous") for e in eps):
        h["trace_delay"] = {"files": ["runners/guard.py"], "delays_ms": [draw(st.sampled_from([0, 1, 3])), draw(st.sampled_from([0, 1, 3])), draw(st.sampled_from([0, 2, 5]))]}
    elif any(e.get("immediate") for e in eps) and draw(st.booleans()):
        # shutdown() the moment the runner reports running: line-level delays inside the service module widen every window
        # between two of its statements
        h["trace_delay"] = {"files": ["runners/service.py"], "delays_ms": [0, draw(st.sampled_from([1, 2])), draw(st.sampled_from([0, 1, 3]))]}
    return h


def judge(sc, obs) -> Result:
    res = Result()
    if obs.get("worker_error"):
        raise HarnessError("scenario worker failed: " + str(obs["worker_error"]))
    eps = obs.get("episodes", [])
    if obs.get("hang") or len(eps) < len(sc["episodes"]):
        k = len(eps)
        res.expensive = True
        mode = sc["episodes"][min(k, len(sc["episodes"]) - 1)]["trigger"]
        res.fail("accept-did-not-end", f"episode {k} (end mode {mode}, population {sc['episodes'][min(k, len(sc['episodes']) - 1)]['population']}): accept() did not end within {BOUND}s; "
                 f"ops {[(o.get('op'), o.get('result'), o.get('raised')) for o in obs.get('ops', []) if o.get('op') in ('shutdown', 'sigint')]}; threads {obs.get('hang_threads')}")
        return res
    for o in obs.get("ops", []):
        if o.get("error"):
            raise HarnessError(f"driver thread failed: {o}")
    for k, (ep, out) in enumerate(zip(sc["episodes"], eps)):
        mode = ep["trigger"]["mode"]
        ops = [o for o in obs["ops"] if o.get("ep") == k]
        tag = f"episode {k} ({mode} at {ep['trigger']['at_ms']} ms, population {ep['population']}, accept_delay {ep['accept_delay']})"
        exc = out.get("exc") or {}
        if mode == "simultaneous-accept":
            h = out.get("helper", {})
            main_rejected = out["how"] == "raised" and exc.get("type") == "RuntimeError"
            helper_rejected = h.get("how") == "raised" and h.get("type") == "RuntimeError"
            desc = f"main accept {out['how']} {exc.get('type', '')}, helper accept {h.get('how')} {h.get('type', '')}, winner {out.get('winner')}"
            if out.get("both_running"):
                res.fail("two-runners-accepting", f"{tag}: both runners report running at the same time ({desc})")
            elif main_rejected == helper_rejected:
                res.fail("concurrent-accept-not-rejected", f"{tag}: exactly one of two simultaneous accepts must raise RuntimeError ({desc})")
            else:
                loser = out if main_rejected else h
                if loser["t_end"] - loser["t_begin"] > 5e9:
                    res.fail("concurrent-accept-slow", f"{tag}: the rejected accept took {(loser['t_end'] - loser['t_begin']) / 1e6:.0f} ms ({desc})")
                winner = h if main_rejected else out
                if winner.get("how") != "returned":
                    res.fail("accept-raised-on-shutdown", f"{tag}: the winning accept did not return normally after shutdown ({desc})")
            if out.get("shutdown_errors"):
                res.fail("shutdown-raised", f"{tag}: {out['shutdown_errors']}")
            continue
        if out["how"] == "raised" and exc.get("type") == "RuntimeError" and "exclusive" in exc.get("repr", ""):
            res.fail("restart-impossible", f"{tag}: accept() of a new runner raised {exc['repr']} after the previous episode ended ({sc['episodes'][k - 1]['trigger']['mode'] if k else 'n/a'})")
            return res
        seen = [e for e in obs["log"] if e[3] == "running-seen" and len(e) > 5 and e[5] == k]
        skipped = [o for o in ops if o.get("skipped")]
        if not seen and not skipped and mode != "simultaneous-accept":
            res.fail("never-running", f"{tag}: the runner never reported running")
        # ---- concurrent accepts
        ends = [o["t_call"] for o in ops if o.get("op") in ("shutdown", "sigint")]
        t_trigger = min(ends) if ends else out["t_end"]
        for o in ops:
            if o.get("op") != "accept2" or o.get("skipped"):
                continue
            if o["t_return"] >= out["t_end"]:
                continue  # not entirely inside the active accept: the guard may legitimately have been free
            if o.get("raised") != "RuntimeError":
                res.fail("concurrent-accept-not-rejected", f"{tag}: a second accept ({'same' if o['same'] else 'other'} instance) {'returned' if not o.get('raised') else 'raised ' + o['raised']} instead of raising RuntimeError")
            elif o["t_return"] - o["t_call"] > 5e9:
                res.fail("concurrent-accept-slow", f"{tag}: the rejected accept took {(o['t_return'] - o['t_call']) / 1e6:.0f} ms")
            if o["t_return"] < min(t_trigger, out["t_end"]) and not o.get("running_after") and mode not in ("failure", "failure+shutdown", "kbint-payload"):
                res.fail("active-runner-disturbed", f"{tag}: after the rejected accept the active runner no longer reports running")
        for e in obs["log"]:
            if e[3] == "beats" and len(e) > 5 and e[5] == k and e[4].get("missing") and e[0] < min(t_trigger, out["t_end"]) and mode not in ("failure", "failure+shutdown", "kbint-payload"):
                res.fail("active-runner-disturbed", f"{tag}: heartbeats {e[4]['missing']} stopped after a rejected concurrent accept")
        for o in ops:
            if o.get("op") == "execute" and o["t_return"] < min(t_trigger, out["t_end"]) and o.get("result") != "same" and mode not in ("failure", "failure+shutdown", "kbint-payload"):
                res.fail("active-runner-disturbed", f"{tag}: execute after a rejected accept gave {o.get('result')} / {o.get('raised')}")
        # ---- shutdown and how accept ended
        calls = [e for e in obs["log"] if e[3] == "shutdown-call" and len(e) > 5 and e[5] == k]
        returned = [o for o in ops if o.get("op") == "shutdown"]
        if len(returned) < len(calls):
            res.expensive = True
            res.fail("shutdown-did-not-return", f"{tag}: shutdown() was called {len(calls)} time(s) but returned {len(returned)} time(s) within the bound")
        for o in ops:
            if o.get("op") == "shutdown" and o.get("result") != "returned":
                res.fail("shutdown-raised", f"{tag}: shutdown() by {o['by']} raised {o.get('raised')}: {o.get('raised_repr')}")
        if mode in ("shutdown-outside", "shutdown-thread", "sigint", "sigint+shutdown", "kbint-payload"):
            if out["how"] != "returned":
                res.fail("accept-raised-on-" + ("interrupt" if mode.startswith("sigint") or mode == "kbint-payload" else "shutdown"), f"{tag}: accept() raised {exc.get('type')}: {exc.get('repr')} cause {exc.get('cause')}")
        elif mode == "failure":
            if out["how"] != "raised" or exc.get("type") != "RuntimeError":
                res.fail("failure-not-reported", f"{tag}: accept() {out['how']} {exc.get('type')}")
        else:
            if out["how"] == "raised" and exc.get("type") != "RuntimeError":
                res.fail("failure-not-reported", f"{tag}: accept() raised {exc.get('type')}: {exc.get('repr')}")
    return res


def run_case(sc) -> Result:
    obs = run_scenario(sc)
    res = judge(sc, obs)
    eps = sc["episodes"]
    res.cls("episodes:%d" % len(eps), "modes:" + ",".join(e["trigger"]["mode"][:8] for e in eps)[:40])
    for e in eps:
        res.cls("mode:" + e["trigger"]["mode"], "population:" + e["population"], "accept2:%d" % e["naccept"])
    res.nontrivial = (len(eps) >= 2 and eps[0]["trigger"]["mode"] in ("failure", "sigint", "failure+shutdown")) or any(e["naccept"] for e in eps) or \
        any(e["trigger"]["mode"].startswith("shutdown") and e["trigger"]["at_ms"] <= e["accept_delay"] * 1000 for e in eps)
    if res.violations:
        res.info = {"episodes": obs.get("episodes"), "ops": obs.get("ops", [])[-10:]}
    return res


def enum_core(shard, nshards):
    """every end mode x population x concurrent accept (no/yes) x shutdown offset, each followed by a plain episode that must
    start and stop again (restart after every kind of exit)"""
    idx = 0
    for end in ("shutdown-outside", "shutdown-thread", "sigint", "failure-exc", "failure-ret", "failure+shutdown", "sigint+shutdown"):
        for population in ("none", "coroutines", "blocked-threads", "stubborn"):
            for naccept in (0, 1):
                for at in (0, 12):
                    idx += 1
                    if idx % nshards != shard:
                        continue
                    payloads = [{"id": 100 + i, "flavour": f, "role": "heartbeat", "reg": {"how": "pre"}, "program": [["beat", 3, 1000000]], "end": ["forever"], "cleanup": {}}
                                for i, f in enumerate(ALL)]
                    if population == "coroutines":
                        payloads += [{"id": 200, "flavour": "asyncio", "role": "sleeper", "reg": {"how": "pre"}, "program": [["sleep", 600000]], "end": ["forever"], "cleanup": {"sync_ms": 30}},
                                     {"id": 201, "flavour": "trio", "role": "sleeper", "reg": {"how": "pre"}, "program": [["sleep", 600000]], "end": ["forever"], "cleanup": {"sync_ms": 0, "shield_ms": 60}}]
                    elif population == "blocked-threads":
                        payloads.append({"id": 200, "flavour": "threading", "role": "blocked", "reg": {"how": "pre"}, "program": [["block", 60000]], "end": ["return", "None"]})
                    elif population == "stubborn":
                        payloads.append({"id": 200, "flavour": "asyncio", "role": "sleeper", "reg": {"how": "pre"}, "program": [["sleep", 600000]], "end": ["forever"], "cleanup": {}, "stubborn": 2})
                    script = []
                    shift = 25 if naccept else 0
                    if naccept:
                        script += [{"at_ms": 1, "op": "accept2", "same": False}, {"at_ms": 8, "op": "await-beats", "pids": [100, 101, 102], "k": 2, "timeout_ms": 5000, "name": "after-accept2"}]
                    mode = end
                    if end in ("shutdown-outside",):
                        script.append({"at_ms": at + shift, "op": "shutdown"})
                    elif end == "shutdown-thread":
                        payloads.append({"id": 500, "flavour": "threading", "role": "shutter", "reg": {"how": "outside"}, "program": [["shutdown"]], "end": ["return", "None"]})
                        script.append({"at_ms": at + shift, "op": "adopt", "pid": 500})
                    elif end.startswith("sigint"):
                        script.append({"at_ms": at + shift, "op": "sigint"})
                        if end == "sigint+shutdown":
                            script.append({"at_ms": at + shift + 30, "op": "shutdown"})
                    else:
                        mode = "failure" if end != "failure+shutdown" else end
                        payloads.append({"id": 1, "flavour": ALL[idx % 3], "role": "failing", "kind": "ret" if end == "failure-ret" else "exc", "reg": {"how": "pre"},
                                         "program": [["sleep", at + shift]], "end": ["return", "0"] if end == "failure-ret" else ["raise", "KeyError"]})
                        if end == "failure+shutdown":
                            script.append({"at_ms": at + shift + 20, "op": "shutdown"})
                    first = {"runner": "service", "accept_delay": 0.01, "payloads": payloads, "drivers": [script], "linger_ms": 20,
                             "trigger": {"mode": mode, "at_ms": at + shift}, "population": population, "naccept": naccept, "heartbeats": [100, 101, 102]}
                    second = {"runner": "service", "accept_delay": 0.01, "payloads": [], "drivers": [[{"at_ms": 5, "op": "shutdown"}]], "linger_ms": 10,
                              "trigger": {"mode": "shutdown-outside", "at_ms": 5}, "population": "none", "naccept": 0, "heartbeats": []}
                    yield {"episodes": [first, second], "switchinterval": None, "bound_s": BOUND}


def tests(tier):
    t = [TestDef("histories", run_case, strategy=history(), quick=320, thorough=10000, shards_quick=16, shrink_budget=30, slow=True),
         TestDef("exhaustive-core", run_case, enumerate=enum_core, exhaustive=True, shards_quick=16, shards_thorough=16)]
    for td in t:
        td.replay_runs = 10
    return t
