"""C15 - FactoryPool spawns and releases just enough children"""
import itertools
import math

import trio
from hypothesis import strategies as st

from cobald.composite.factory import FactoryPool

from engines.trio_clock import run_virtual
from vlib.core import Result, TestDef
from vlib.pools import StatePool
from vlib.strategies import dyadic

ID = "C15"
LEVEL = "exploration"
RULE = (
    "Hypothesis-generated histories run against the real FactoryPool.run() under trio's virtual clock: 0-4 initial children, a "
    "factory producing children of varying initial demand (ints / dyadics > 0), 1-40 ops {write demand D, set a child's supply / "
    "utilisation, a child sets its own demand to 0, make total supply exactly equal to the request (by a child's supply or by the request), let one adjustment happen} applied strictly between adjustment instants; plus "
    "an exhaustive enumeration of all histories up to depth 4 over a small alphabet. After every adjustment the invariants of the "
    "statement are evaluated from the children (the harness holds strong references to every child ever seen): coverage and "
    "minimality on growth, growth whenever supply does not exceed the request and the active demand does not cover it, release-only-if-covered and no-releasable-child-kept on shrink, released children stay at demand 0, "
    "children come only from the factory, aggregates recomputed. Non-trivial = a history with >= 1 grow and >= 1 shrink, or a "
    "self-disabled child, or a shrink that had to skip a child; distinct = canonical JSON of the history."
)
ASSUMPTIONS = [
    "demands are ints/dyadics (sums exact); released children keep demand 0 (the documented child contract)",
    "a child counts as released once the pool has written demand=0 to it; membership is observed through FactoryPool.children",
]


class Child(StatePool):
    pass


num_pos = st.one_of(st.integers(1, 12), dyadic(0, 12).filter(lambda x: x > 0))
num_nn = st.one_of(st.integers(0, 40), dyadic(0, 40))

op = st.one_of(
    st.tuples(st.just("D"), num_nn),
    st.tuples(st.just("D"), num_nn),
    st.tuples(st.just("sup"), st.integers(0, 30), num_nn),
    st.tuples(st.just("util"), st.integers(0, 30), dyadic(0, 1, 3)),
    st.tuples(st.just("off"), st.integers(0, 30)),
    # boundary states by construction: total supply exactly equal to the requested demand at the next adjustment
    st.tuples(st.just("supfit"), st.integers(0, 30)),
    st.tuples(st.just("Dfit")),
    st.tuples(st.just("adj")),
    st.tuples(st.just("adj")),
)

case = st.fixed_dictionaries({
    "interval": st.sampled_from([1, 0.5, 30, 2.25]),
    "initial": st.lists(st.fixed_dictionaries({"demand": num_nn, "supply": num_nn, "util": dyadic(0, 1, 3)}), max_size=4),
    "factory": st.lists(num_pos, min_size=1, max_size=5),
    "ops": st.lists(op, min_size=1, max_size=40).map(lambda l: [list(o) for o in l] + [["adj"]]),
})


def run_case(spec) -> Result:
    res = Result()
    interval = spec["interval"]
    known = []  # strong refs to every child ever seen, in creation order
    made = []

    def factory():
        d = spec["factory"][len(made) % len(spec["factory"])]
        c = Child(demand=d, supply=0, utilisation=1.0, allocation=1.0, name=f"made{len(made)}")
        made.append(c)
        known.append(c)
        return c

    initial = [Child(demand=c["demand"], supply=c["supply"], utilisation=c["util"], allocation=c["util"], name=f"init{i}")
               for i, c in enumerate(spec["initial"])]
    known.extend(initial)
    try:
        pool = FactoryPool(*initial, factory=factory, interval=interval)
    except Exception as e:
        res.fail("ctor", f"{type(e).__name__}: {e}")
        return res
    stats = {"grow": 0, "shrink": 0, "reaped": 0, "skipped": 0, "self_off": 0, "fit": 0, "equal": 0}

    def released(c):
        return any(w == 0 for w in c.writes)

    def check_aggregates(tag):
        kids = list(pool.children)
        if len({id(k) for k in kids}) != len(kids):
            res.fail("child-both-active-and-released", f"{tag}: children lists a child twice: {kids}")
        for k in kids:
            if not any(k is x for x in known):
                res.fail("child-not-from-factory", f"{tag}: child {k!r} was neither given initially nor produced by the factory")
        for k in known:
            if not any(k is x for x in kids):
                res.fail("child-lost", f"{tag}: child {k!r} is still alive but no longer among the pool's children")
        want_s = sum(k.supply for k in known)
        if pool.supply != want_s:
            res.fail("supply-not-sum", f"{tag}: supply {pool.supply!r}, sum over all children {want_s!r}")
        sup = [k for k in known if k.supply > 0]
        for attr in ("utilisation", "allocation"):
            want = math.fsum(getattr(k, attr) for k in sup) / len(sup) if sup else 1.0
            got = getattr(pool, attr)
            if abs(got - want) > 1e-12 * max(1, abs(want)):
                res.fail("fitness-not-mean", f"{tag}: {attr} {got!r}, mean over children with supply {want!r}")

    async def env():
        k = 0
        await trio.sleep(interval / 2)
        for i, o in enumerate(spec["ops"]):
            tag = f"op{i}:{o[0]}"
            if o[0] == "D":
                pool.demand = o[1]
                if pool.demand != o[1]:
                    res.fail("demand-readback", f"{tag}: wrote {o[1]!r}, reads {pool.demand!r}")
            elif o[0] == "Dfit":
                pool.demand = sum(c.supply for c in known)
                stats["fit"] += 1
            elif o[0] in ("sup", "util", "off", "supfit"):
                if not known:
                    continue
                c = known[o[1] % len(known)]
                if o[0] == "supfit":
                    rest = sum(x.supply for x in known if x is not c)
                    if pool.demand >= rest:
                        c.supply = pool.demand - rest
                        stats["fit"] += 1
                elif o[0] == "sup":
                    c.supply = o[2]  # also released children may still (or again) report supply while they drain
                elif o[0] == "util":
                    c.utilisation = c.allocation = o[2]
                elif not released(c):
                    c._demand = 0
                    stats["self_off"] += 1
            else:
                D = pool.demand
                S = sum(c.supply for c in known)
                before = {id(c): c.demand for c in known}
                was_released = {id(c) for c in known if released(c)}
                n_made = len(made)
                nwrites = {id(c): len(c.writes) for c in known}
                await trio.sleep_until((k + 1) * interval + interval / 4)
                k += 1
                tag = f"{tag} (adjustment {k}, D={D!r}, supply={S!r})"
                spawned = made[n_made:]
                now_released = [c for c in known if released(c) and id(c) not in was_released]
                active = [c for c in known if not released(c)]
                total = sum(c.demand for c in active)
                for c in known:
                    if id(c) in was_released:
                        if c.demand != 0 or len(c.writes) != nwrites.get(id(c), 0) and any(w != 0 for w in c.writes[nwrites[id(c)]:]):
                            res.fail("released-child-active-again", f"{tag}: released child {c!r} has demand {c.demand!r} (writes {c.writes})")
                for c in now_released:
                    if c.demand != 0:
                        res.fail("released-child-demand", f"{tag}: child {c!r} was released but has demand {c.demand!r}")
                for c in active:
                    if c.demand <= 0:
                        res.fail("child-without-demand-kept", f"{tag}: child {c!r} has demand {c.demand!r} but was not released")
                if S == D:
                    stats["equal"] += 1
                if S <= D and total < D:
                    # nothing is in excess (supply does not exceed the request), yet the active demand does not cover it
                    res.fail("grow-missing", f"{tag}: supply {S!r} does not exceed the request {D!r} and the active children's demand {total!r} does not cover it, "
                                             f"but {'only ' + str(len(spawned)) if spawned else 'no'} children were spawned")
                if spawned:
                    stats["grow"] += 1
                    last = spawned[-1]
                    if total < D:
                        res.fail("grow-does-not-cover", f"{tag}: spawned {len(spawned)} children but active demand {total!r} < requested {D!r}")
                    last_d = spec["factory"][(len(made) - 1) % len(spec["factory"])]
                    if not released(last) and total - last.demand >= D:
                        res.fail("grow-too-many", f"{tag}: active demand {total!r} would cover {D!r} without the child spawned last ({last.demand!r})")
                    if released(last) or any(released(c) for c in spawned):
                        res.fail("spawned-child-released", f"{tag}: a child spawned in this adjustment was released at once")
                    if last_d != last.demand:
                        res.fail("spawned-child-demand-changed", f"{tag}: factory set demand {last_d!r}, now {last.demand!r}")
                positive_released = [c for c in now_released if before[id(c)] > 0]
                if positive_released:
                    stats["shrink"] += 1
                    stats["reaped"] += len(positive_released)
                    if total < D:
                        res.fail("shrink-uncovers-demand", f"{tag}: released {[(c.name, before[id(c)]) for c in positive_released]} leaving active demand {total!r} < requested {D!r}")
                    if spawned:
                        res.fail("grow-and-shrink-at-once", f"{tag}: spawned and released demanding children in one adjustment")
                if S > D and not spawned:
                    keepable = [c for c in active if c.demand <= total - D]
                    if keepable:
                        res.fail("shrink-keeps-releasable-child", f"{tag}: shrink branch kept {[(c.name, c.demand) for c in keepable]} although active demand {total!r} exceeds {D!r} by at least their demand")
                    if any(c for c in active if before.get(id(c), 0) > 0) and positive_released:
                        stats["skipped"] += 1
                for c in known:
                    if id(c) not in was_released and not released(c) and id(c) in before and c.demand != before[id(c)]:
                        res.fail("active-child-demand-changed", f"{tag}: the pool changed the demand of kept child {c!r}: {before[id(c)]!r} -> {c.demand!r}")
                await trio.sleep_until((k + 0.5) * interval)
            check_aggregates(tag)
            if res.violations:
                return

    async def main():
        async with trio.open_nursery() as nursery:
            nursery.start_soon(pool.run)
            await env()
            nursery.cancel_scope.cancel()

    try:
        run_virtual(main)
    except BaseException as e:
        res.fail("run-raises", f"{type(e).__name__}: {e!r}")
        return res
    res.cls("grow:%d" % min(stats["grow"], 5), "shrink:%d" % min(stats["shrink"], 5), "self-off:%d" % min(stats["self_off"], 3),
            "adjustments-at-supply==demand:%s" % ("0" if not stats["equal"] else "1" if stats["equal"] == 1 else ">1"))
    res.nontrivial = (stats["grow"] >= 1 and stats["shrink"] >= 1) or stats["self_off"] > 0 or stats["skipped"] > 0
    return res


ALPHABET = [["D", 0], ["D", 3], ["D", 7], ["sup", 0, 5], ["sup", 1, 9], ["off", 0], ["off", 1], ["supfit", 0], ["Dfit"], ["adj"]]


def enum_histories(shard, nshards):
    idx = 0
    for depth in range(1, 5):
        for ops in itertools.product(ALPHABET, repeat=depth):
            if ops[-1][0] != "adj" and depth > 1:
                continue  # the final adjustment is appended anyway: skip duplicates
            for initial in ([], [{"demand": 2, "supply": 2, "util": 0.5}, {"demand": 3, "supply": 0, "util": 1.0}]):
                idx += 1
                if idx % nshards != shard:
                    continue
                yield {"interval": 1, "initial": initial, "factory": [2, 3], "ops": [list(o) for o in ops] + [["adj"]]}


def tests(tier):
    t = [TestDef("history", run_case, strategy=case, quick=10000, thorough=200000)]
    if tier == "thorough":
        t.append(TestDef("exhaustive-depth4", run_case, enumerate=enum_histories, exhaustive=True))
    return t
