"""C14 - Config sections are validated, then digested once each in constraint order"""
import copy

from hypothesis import strategies as st

from cobald.daemon.config.mapping import ConfigurationError, load_configuration
from cobald.daemon.core.config import load_section_plugins
from cobald.daemon.plugins import constraints

from engines.plugin_scratch import write_entry_points, write_module
from vlib.core import Result, TestDef

ID = "C14"
LEVEL = "exploration"
RULE = (
    "Hypothesis-generated plugin sets (0-8 section plugins) registered through a scratch entry-point group on sys.path and loaded "
    "with the real load_section_plugins; before/after constraints form an acyclic graph by construction (edges follow a random "
    "permutation, each expressed as 'before' on one side or 'after' on the other) plus constraints naming plugins that are not "
    "installed; required flags; configuration mappings = generated subset of the sections, optional logging section, optional "
    "unknown sections; digests return None / falsy / truthy values. Oracle: validation errors before any digest ran, exactly one "
    "call per present section with the identical content object, kept non-None results keyed by plugin, call order satisfying "
    "every constraint among installed plugins. Non-trivial = >= 3 plugins with >= 2 constraints, or a constraint naming an absent "
    "plugin, or an unknown / missing-required section; distinct = canonical JSON of the case."
)
ASSUMPTIONS = [
    "constraint graphs are acyclic, also when the names of absent plugins are counted as nodes (all edges follow one linear order)",
    "'A before B' / 'B after A' both mean: A's digest is called first (SectionPlugin.load docstring and the dependency map)",
]

GROUP = "verif.c14.sections"
NAMES = ["alpha", "beta", "gamma", "delta", "eps", "zeta", "eta", "theta", "pipeline", "iota"]
ABSENT = ["ghost", "missing_plugin", "zzz"]
_SRC = '''
LOG = []

class Digest:
    def __init__(self, idx):
        self.idx = idx
        self.result = None
    def __call__(self, content):
        LOG.append((self.idx, content))
        return self.result
    def __repr__(self):
        return "Digest(%d)" % self.idx

class ValueDigest(Digest):
    """a digest object with value semantics: it defines __eq__ and is therefore unhashable"""
    def __eq__(self, other):
        return type(other) is type(self) and other.idx == self.idx

DIGESTS = [Digest(i) for i in range(10)]
VALUE_DIGESTS = [ValueDigest(i) for i in range(10)]
for _i, _d in enumerate(DIGESTS):
    globals()["p%d" % _i] = _d
for _i, _d in enumerate(VALUE_DIGESTS):
    globals()["v%d" % _i] = _d
'''
_ready = False


def ensure():
    global _ready
    if not _ready:
        write_module("verifplug_c14.py", _SRC)
        _ready = True
    import verifplug_c14

    return verifplug_c14


content = st.recursive(st.one_of(st.none(), st.booleans(), st.integers(0, 9), st.text("ab", max_size=3)),
                       lambda ch: st.one_of(st.lists(ch, max_size=3), st.dictionaries(st.text("xy", min_size=1, max_size=2), ch, max_size=3)), max_leaves=5)
RESULTS = [None, None, 0, False, "", "kept", 7, [], {"a": 1}]


@st.composite
def case(draw):
    n = draw(st.integers(0, 8))
    names = draw(st.permutations(NAMES))[:n]
    # one global linear order over installed AND absent plugin names: every constraint follows it,
    # so the constraint graph is acyclic even when the absent names are counted as nodes
    order = list(draw(st.permutations(range(n + len(ABSENT)))))
    plugins = [{"name": names[i], "required": draw(st.booleans()) and draw(st.booleans()), "before": [], "after": [],
                "result": draw(st.integers(0, len(RESULTS) - 1)),
                # how the constraint names are handed to the decorator (any Iterable[str]) and what kind of callable the digest is
                "decl": draw(st.sampled_from(["list", "list", "tuple", "set", "frozenset", "generator", "iterator"])),
                "digest": draw(st.sampled_from(["plain", "plain", "plain", "value-semantics"]))} for i in range(n)]
    pos = {i: order[i] for i in range(n)}
    for i in range(n):
        for j in range(n):
            if pos[i] < pos[j] and draw(st.integers(0, 3)) == 0:
                how = draw(st.sampled_from(["before", "after", "both"]))
                if how in ("before", "both"):
                    plugins[i]["before"].append(names[j])
                if how in ("after", "both"):
                    plugins[j]["after"].append(names[i])
    for i, p in enumerate(plugins):
        if draw(st.integers(0, 3)) == 0:
            g = draw(st.integers(0, len(ABSENT) - 1))
            p["before" if pos[i] < order[n + g] else "after"].append(ABSENT[g])
    present = [draw(st.integers(0, 3)) > 0 for _ in range(n)]
    config = []
    for i in range(n):
        if present[i]:
            config.append([names[i], draw(content)])
    if draw(st.integers(0, 3)) == 0:
        config.append(["logging", {"version": 1}])
    for _ in range(draw(st.sampled_from([0, 0, 0, 1, 2]))):
        # unknown sections - also under keys that are not strings, as YAML allows (`1: x`, `null: x`, `true: x`)
        config.append([draw(st.sampled_from(["unknown", "extra", "pipelines", "Logging", 1, None, True, 2.5] + [x for x in NAMES if x not in names][:2])), draw(content)])
    config = draw(st.permutations(config))
    seen, cfg = set(), []
    for k, v in config:
        if k not in seen:
            seen.add(k)
            cfg.append([k, v])
    return {"plugins": plugins, "config": cfg}


def run_case(spec) -> Result:
    res = Result()
    mod = ensure()
    plugins = spec["plugins"]
    names = [p["name"] for p in plugins]
    for i, p in enumerate(plugins):
        value = p.get("digest") == "value-semantics"
        d = (mod.VALUE_DIGESTS if value else mod.DIGESTS)[i]
        d.result = RESULTS[p["result"]]
        wrap = {"list": list, "tuple": tuple, "set": set, "frozenset": frozenset, "generator": lambda names_: (x for x in names_), "iterator": iter}[p.get("decl", "list")]
        constraints(before=wrap(p["before"]), after=wrap(p["after"]), required=p["required"])(d)
    write_entry_points("verif_c14", {GROUP: {p["name"]: f"verifplug_c14:{'v' if p.get('digest') == 'value-semantics' else 'p'}{i}" for i, p in enumerate(plugins)}})
    mod.LOG.clear()
    n_edges = sum(len(p["before"]) + len(p["after"]) for p in plugins)
    absent = any(x in ABSENT for p in plugins for x in p["before"] + p["after"])
    try:
        loaded = load_section_plugins(GROUP)
    except Exception as e:
        res.fail("load-plugins-raises", f"load_section_plugins: {type(e).__name__}: {e!r} for plugins {plugins}")
        return res
    if sorted(pl.section for pl in loaded) != sorted(names):
        res.fail("plugins-lost", f"installed {sorted(names)}, loaded {[pl.section for pl in loaded]}")
        return res
    config = {k: v for k, v in spec["config"]}
    given = dict(config)
    contents = {k: v for k, v in config.items()}
    unknown = [k for k in config if k != "logging" and k not in names]
    missing = [p["name"] for p in plugins if p["required"] and p["name"] not in config]
    try:
        out = load_configuration(config, plugins=loaded)
        err = None
    except ConfigurationError as e:
        out, err = None, e
    except Exception as e:
        res.fail("wrong-exception-type", f"{type(e).__name__}: {e!r} for {spec}")
        return res
    log = list(mod.LOG)
    outcome = "ok"
    if unknown:
        outcome = "unknown-section"
        if err is None:
            res.fail("unknown-section-accepted", f"sections {unknown} are claimed by no plugin but loading succeeded")
        elif log:
            res.fail("digest-before-validation", f"unknown sections {unknown}: plugins already ran: {log}")
    elif missing:
        outcome = "missing-required"
        if err is None:
            res.fail("missing-required-accepted", f"required sections {missing} missing but loading succeeded")
    else:
        if err is not None:
            res.fail("valid-config-rejected", f"{err} for {spec}")
            return res
        want_calls = sorted(i for i, p in enumerate(plugins) if p["name"] in given)
        got_calls = [i for i, _c in log]
        if sorted(got_calls) != want_calls:
            res.fail("digest-calls", f"digests called {got_calls}, expected exactly once each of {want_calls} (sections present: {sorted(given)})")
        else:
            for i, c in log:
                if c is not contents[plugins[i]["name"]]:
                    res.fail("digest-content", f"plugin {names[i]} received {c!r}, not its section's content object {contents[names[i]]!r}")
            position = {i: k for k, (i, _c) in enumerate(log)}
            idx = {nm: i for i, nm in enumerate(names)}
            for i, p in enumerate(plugins):
                for b in p["before"]:
                    j = idx.get(b)
                    if j is not None and i in position and j in position and not position[i] < position[j]:
                        res.fail("constraint-order", f"{names[i]} declares before={b} but was called after it: order {[names[k] for k, _ in log]}")
                for a in p["after"]:
                    j = idx.get(a)
                    if j is not None and i in position and j in position and not position[j] < position[i]:
                        res.fail("constraint-order", f"{names[i]} declares after={a} but was called before it: order {[names[k] for k, _ in log]}")
        want_out = {p["name"]: RESULTS[p["result"]] for p in plugins if p["name"] in given and RESULTS[p["result"]] is not None}
        try:
            got_out = {pl.section: v for pl, v in out.items()}
            if len(got_out) != len(out) or any(pl not in loaded for pl in out):
                raise ValueError("keys are not the loaded plugins")
        except Exception as e:
            res.fail("result-mapping-shape", f"returned {out!r}: {e}")
            got_out = None
        if got_out is not None and (got_out != want_out or any(got_out[k] is not want_out[k] for k in want_out)):
            res.fail("result-mapping", f"returned {got_out!r}, expected {want_out!r}")
    res.cls("plugins:%d" % len(plugins), "edges:%d" % min(n_edges, 6), "absent-constraint:" + str(absent), "outcome:" + outcome)
    res.nontrivial = (len(plugins) >= 3 and n_edges >= 2) or absent or outcome != "ok"
    return res


def tests(tier):
    return [TestDef("sections", run_case, strategy=case(), quick=8000, thorough=300000)]
