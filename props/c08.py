"""C08 - Controllers move demand only in the documented direction and amount"""
import math
from fractions import Fraction

import trio
from hypothesis import strategies as st

from cobald.controller.linear import LinearController
from cobald.controller.relative_supply import RelativeSupplyController
from cobald.controller.stepwise import Stepwise, UnboundStepwise, stepwise
from cobald.controller.switch import DemandSwitch
from cobald.interfaces import Controller

from engines.trio_clock import run_virtual
from vlib.core import Result, TestDef
from vlib.pools import StatePool
from vlib.strategies import INF, dyadic

ID = "C08"
LEVEL = "exploration"
RULE = (
    "Hypothesis-generated controller parameters (only those the constructors accept) and sequences of 1-20 regulation "
    "steps with pool states placed exactly on, one ulp below/above and away from the thresholds. Linear/RelativeSupply/"
    "DemandSwitch: regulate(interval) called directly; Stepwise: real run() iterations under trio's virtual clock with "
    "recording rules, built via stepwise().add(), .s() >> pool and Stepwise(...) in random declaration order. Oracle: "
    "the clauses of the statement on demand before/after and on the call log of rules / slave controllers. Non-trivial = "
    "a step with a value on or one ulp from a threshold, or a table of >= 3 rules/slaves declared unsorted, or both Linear "
    "conditions true at once; distinct = distinct canonical JSON of the case."
)
ASSUMPTIONS = [
    "Linear: the applied amount is compared with interval*rate up to one ulp of max(|demand|, amount) (float rounding of the addition)",
    "when both conditions of Linear/RelativeSupply hold at once either documented direction is accepted",
    "Stepwise: supply >= 0, thresholds distinct and > 0; DemandSwitch: thresholds distinct",
]


def ulp(x):
    return math.ulp(float(x))


def around(ts):
    """strategy: values on/next to thresholds in ts, or arbitrary in [0, 2]"""
    opts = []
    for t in ts:
        t = float(t)
        opts += [t, math.nextafter(t, INF), math.nextafter(t, -INF)]
    return st.one_of(st.sampled_from(opts), st.floats(0, 2), st.sampled_from([0, 0.0, 1, 1.0, 2]))


def near_flag(v, ts):
    return any(abs(float(v) - float(t)) <= 2 * ulp(t) for t in ts)


pos = st.one_of(st.integers(1, 100), dyadic(0, 100).filter(lambda x: x > 0), st.floats(1e-3, 1e4))
demand0 = st.one_of(st.integers(0, 10**6), st.floats(0, 1e9), dyadic(0, 1000))


# ------------------------------------------------------------------ Linear / RelativeSupply
@st.composite
def lin_case(draw):
    low = draw(st.one_of(dyadic(0, 2, 4), st.floats(0, 2)))
    high = draw(st.one_of(st.just(low), dyadic(0, 2, 4).filter(lambda h: h >= low), st.floats(low, 2.5)))
    kind = draw(st.sampled_from(["linear", "relative"]))
    spec = {"kind": kind, "low": low, "high": high, "interval": draw(pos), "ctor_interval": draw(pos)}
    if kind == "linear":
        spec["rate"] = draw(pos)
    else:
        spec["low_scale"] = draw(st.one_of(st.floats(0, 1, exclude_max=True), st.sampled_from([0.9, 0.5, 0, math.nextafter(1, 0)])))
        spec["high_scale"] = draw(st.one_of(st.floats(1, 10, exclude_min=True), st.sampled_from([1.1, 2, math.nextafter(1, 2)])))
    step = st.fixed_dictionaries({
        "util": around([low]), "alloc": around([high]),
        "demand": st.one_of(st.none(), demand0), "supply": st.one_of(st.none(), st.none(), st.integers(0, 10**6), st.floats(0, 1e9), st.integers(0, 20)),
        "interval": st.one_of(st.none(), pos),
    })
    spec["demand0"] = draw(demand0)
    spec["steps"] = draw(st.lists(step, min_size=1, max_size=20))
    return spec


def run_lin(spec) -> Result:
    res = Result()
    pool = StatePool(demand=spec["demand0"], supply=0)
    try:
        if spec["kind"] == "linear":
            ctrl = LinearController(pool, low_utilisation=spec["low"], high_allocation=spec["high"],
                                    rate=spec["rate"], interval=spec["ctor_interval"])
        else:
            ctrl = RelativeSupplyController(pool, low_utilisation=spec["low"], high_allocation=spec["high"],
                                            low_scale=spec["low_scale"], high_scale=spec["high_scale"],
                                            interval=spec["ctor_interval"])
    except Exception as e:
        res.fail("ctor-rejects-valid", f"{type(e).__name__}: {e} for {spec}")
        return res
    if ctrl.target is not pool:
        res.fail("target", "controller.target is not the pool given")
    nt = False
    for i, s in enumerate(spec["steps"]):
        pool.utilisation, pool.allocation = s["util"], s["alloc"]
        if s["supply"] is not None:  # None: the supply is the same as in the previous step
            pool.supply = s["supply"]
        if s["demand"] is not None:
            pool._demand = s["demand"]
        interval = s["interval"] if s["interval"] is not None else spec["interval"]
        before = pool.demand
        nwrites = len(pool.writes)
        try:
            ctrl.regulate(interval)
        except Exception as e:
            res.fail("regulate-raises", f"step {i}: {type(e).__name__}: {e}")
            return res
        after = pool.demand
        c_low = s["util"] < spec["low"]
        c_high = s["alloc"] > spec["high"]
        branch = "both" if (c_low and c_high) else "down" if c_low else "up" if c_high else "none"
        res.cls(f"{spec['kind']}:{branch}")
        tag = f"step {i} ({spec['kind']}, util={s['util']!r} low={spec['low']!r}, alloc={s['alloc']!r} high={spec['high']!r}, interval={interval!r})"
        if spec["kind"] == "linear":
            amount = Fraction(interval) * Fraction(spec["rate"])
            famount = interval * spec["rate"]
            delta = Fraction(after) - Fraction(before)
            tol = Fraction(ulp(max(abs(before), abs(after), famount)))
            if abs(delta) > amount + tol:
                res.fail("linear-too-much", f"{tag}: demand {before!r} -> {after!r}, more than rate*interval={famount!r}")
            if delta < 0 and not c_low:
                res.fail("linear-down-without-low-utilisation", f"{tag}: demand {before!r} -> {after!r}")
            if delta > 0 and not c_high:
                res.fail("linear-up-without-high-allocation", f"{tag}: demand {before!r} -> {after!r}")
            if branch == "down" and abs(delta + amount) > tol:
                res.fail("linear-down-amount", f"{tag}: demand {before!r} -> {after!r}, expected -{famount!r}")
            if branch == "up" and abs(delta - amount) > tol:
                res.fail("linear-up-amount", f"{tag}: demand {before!r} -> {after!r}, expected +{famount!r}")
            if branch == "both" and min(abs(delta + amount), abs(delta - amount)) > tol:
                res.fail("linear-both-amount", f"{tag}: demand {before!r} -> {after!r}, expected -/+{famount!r}")
            if branch == "none" and (after != before or len(pool.writes) != nwrites):
                res.fail("linear-change-without-condition", f"{tag}: demand {before!r} -> {after!r} (writes: {pool.writes[nwrites:]})")
        else:
            sup = pool.supply
            allowed = {"down": [spec["low_scale"]], "up": [spec["high_scale"]], "none": [1],
                       "both": [spec["low_scale"], spec["high_scale"]]}[branch]
            ok = any(abs(Fraction(after) - Fraction(sup) * Fraction(sc)) <= Fraction(ulp(sup * sc)) for sc in allowed)
            if not ok:
                res.fail("relative-" + branch, f"{tag}: supply {sup!r} -> demand {after!r}, expected supply x {allowed}")
        if near_flag(s["util"], [spec["low"]]) or near_flag(s["alloc"], [spec["high"]]) or branch == "both":
            nt = True
            res.cls("on-threshold")
        if res.violations:
            return res
    res.nontrivial = nt
    return res


# ------------------------------------------------------------------ Stepwise
@st.composite
def step_case(draw):
    n = draw(st.integers(0, 8))
    ths = draw(st.lists(st.one_of(st.integers(1, 50), dyadic(0, 50).filter(lambda x: x > 0), st.floats(1e-3, 1e3)),
                        min_size=n, max_size=n, unique_by=lambda x: float(x)))
    rules = [{"th": t, "ret": draw(st.one_of(st.none(), st.integers(0, 1000), st.floats(0, 1e6)))} for t in ths]
    base_ret = draw(st.one_of(st.none(), st.integers(0, 1000)))
    route = draw(st.sampled_from(["add-call", "add-s", "direct", "add-deco-call"]))
    interval = draw(st.one_of(st.none(), pos))
    sup = st.one_of(st.sampled_from([0, 0.0] + [v for t in ths for v in (float(t), math.nextafter(float(t), INF), math.nextafter(float(t), 0), t)] or [0]),
                    st.floats(0, 1e3), st.integers(0, 60))
    steps = draw(st.lists(st.fixed_dictionaries({"supply": sup, "demand": st.integers(0, 100)}), min_size=1, max_size=20))
    return {"rules": rules, "base_ret": base_ret, "route": route, "interval": interval, "steps": steps}


def run_stepwise(spec) -> Result:
    res = Result()
    pool = StatePool(demand=0, supply=0)
    log = []

    def mk_rule(idx, ret):
        def rule(target, interval):
            log.append((idx, target, interval, trio.current_time()))
            return ret
        return rule

    base = mk_rule("base", spec["base_ret"])
    rules = [(r["th"], mk_rule(i, r["ret"])) for i, r in enumerate(spec["rules"])]
    kw = {} if spec["interval"] is None else {"interval": spec["interval"]}
    interval = 1 if spec["interval"] is None else spec["interval"]
    try:
        if spec["route"] == "direct":
            ctrl = Stepwise(pool, base, *rules, **kw)
        else:
            unbound = stepwise(base)
            for th, rule in rules:
                if spec["route"] == "add-deco-call":
                    unbound.add(supply=th)(rule)
                else:
                    unbound.add(rule, supply=th)
            if spec["route"] == "add-s":
                ctrl = unbound.s(**kw) >> pool
            else:
                ctrl = unbound(pool, **kw)
    except Exception as e:
        res.fail("ctor-rejects-valid", f"{type(e).__name__}: {e} for {spec}")
        return res
    if not isinstance(ctrl, Stepwise) or ctrl.target is not pool:
        res.fail("ctor-result", f"built {ctrl!r} with target {getattr(ctrl, 'target', None)!r}")
        return res
    steps = spec["steps"]
    observed = []

    def apply(k):
        pool.supply = steps[k]["supply"]
        pool._demand = steps[k]["demand"]

    async def env():
        for k in range(len(steps)):
            # step k happens at k*interval; look in between
            await trio.sleep_until((k + 0.5) * interval)
            observed.append((list(log), pool.demand, list(pool.writes)))
            log.clear()
            pool.writes.clear()
            if k + 1 < len(steps):
                apply(k + 1)

    async def main():
        apply(0)
        with trio.move_on_after((len(steps) - 0.25) * interval):
            async with trio.open_nursery() as nursery:
                nursery.start_soon(ctrl.run)
                nursery.start_soon(env)

    try:
        run_virtual(main)
    except BaseException as e:
        res.fail("run-raises", f"{type(e).__name__}: {e!r}")
        return res
    if len(observed) != len(steps):
        res.fail("harness-steps", f"observed {len(observed)} of {len(steps)} steps")
        return res
    order = [float(r["th"]) for r in spec["rules"]]
    nt = len(order) >= 3 and order != sorted(order)
    for k, (calls, dem, writes) in enumerate(observed):
        s = steps[k]
        sup = s["supply"]
        below = [(float(r["th"]), i) for i, r in enumerate(spec["rules"]) if r["th"] <= sup]
        want = max(below)[1] if below else "base"
        ret = spec["base_ret"] if want == "base" else spec["rules"][want]["ret"]
        tag = f"step {k} (supply={sup!r}, thresholds={[r['th'] for r in spec['rules']]}, route={spec['route']})"
        if len(calls) != 1:
            res.fail("stepwise-not-exactly-one-rule", f"{tag}: {len(calls)} rule invocations: {[c[0] for c in calls]}")
            return res
        idx, target, itv, _t = calls[0]
        if idx != want:
            res.fail("stepwise-wrong-rule", f"{tag}: invoked rule {idx}, expected {want}")
        if target is not pool or itv != interval:
            res.fail("stepwise-rule-arguments", f"{tag}: rule called with ({target!r}, {itv!r}), expected (pool, {interval!r})")
        if ret is None:
            if writes or dem != s["demand"]:
                res.fail("stepwise-none-touched-demand", f"{tag}: rule returned None but demand writes {writes}")
        else:
            if dem != ret or type(dem) is not type(ret):
                res.fail("stepwise-demand-not-rule-result", f"{tag}: rule returned {ret!r}, demand is {dem!r}")
        res.cls("stepwise:" + ("base" if want == "base" else "rule"), "stepwise-n:%d" % len(order))
        if near_flag(sup, order):
            nt = True
            res.cls("on-threshold")
        if res.violations:
            return res
    res.nontrivial = nt
    return res


# ------------------------------------------------------------------ DemandSwitch
class Rec(Controller):
    def __init__(self, target, idx, log):
        super().__init__(target)
        self.idx, self.log = idx, log

    def regulate(self, interval):
        self.log.append((self.idx, self.target, interval))


@st.composite
def switch_case(draw):
    n = draw(st.integers(0, 6))
    ths = draw(st.lists(st.one_of(st.integers(-5, 50), dyadic(-5, 50), st.floats(-10, 1e3)),
                        min_size=n, max_size=n, unique_by=lambda x: float(x)))
    slaves = [{"th": t, "pre": draw(st.booleans())} for t in ths]
    dem = st.one_of(st.sampled_from([0] + [v for t in ths for v in (t, float(t), math.nextafter(float(t), INF), math.nextafter(float(t), -INF))]),
                    st.floats(-20, 1e3), st.integers(-10, 60))
    steps = draw(st.lists(st.fixed_dictionaries({"demand": dem, "interval": pos}), min_size=1, max_size=20))
    return {"slaves": slaves, "default_pre": draw(st.booleans()), "steps": steps,
            "interval": draw(st.one_of(st.none(), pos))}


def run_switch(spec) -> Result:
    res = Result()
    pool = StatePool(demand=0, supply=0)
    log = []
    default = Rec(pool if spec["default_pre"] else None, "default", log)
    args = []
    slaves = []
    for i, s in enumerate(spec["slaves"]):
        c = Rec(pool if s["pre"] else None, i, log)
        slaves.append(c)
        args += [s["th"], c]
    kw = {} if spec["interval"] is None else {"interval": spec["interval"]}
    try:
        sw = DemandSwitch(pool, default, *args, **kw)
    except Exception as e:
        res.fail("ctor-rejects-valid", f"{type(e).__name__}: {e} for {spec}")
        return res
    for c in [default] + slaves:
        if c.target is not pool:
            res.fail("switch-slave-target", f"controller {c.idx} has target {c.target!r}, not the switch's target")
            return res
    order = [float(s["th"]) for s in spec["slaves"]]
    nt = len(order) >= 3 and order != sorted(order)
    for k, s in enumerate(spec["steps"]):
        pool._demand = s["demand"]
        log.clear()
        try:
            sw.regulate(s["interval"])
        except Exception as e:
            res.fail("regulate-raises", f"step {k}: {type(e).__name__}: {e}")
            return res
        below = [(float(x["th"]), i) for i, x in enumerate(spec["slaves"]) if x["th"] <= s["demand"]]
        want = max(below)[1] if below else "default"
        tag = f"step {k} (demand={s['demand']!r}, thresholds={[x['th'] for x in spec['slaves']]})"
        if len(log) != 1:
            res.fail("switch-not-exactly-one", f"{tag}: {len(log)} controllers regulated: {[c[0] for c in log]}")
            return res
        idx, target, itv = log[0]
        if idx != want:
            res.fail("switch-wrong-controller", f"{tag}: delegated to {idx}, expected {want}")
        if target is not pool or itv != s["interval"]:
            res.fail("switch-arguments", f"{tag}: regulate({itv!r}) on target {target!r}")
        res.cls("switch:" + ("default" if want == "default" else "slave"), "switch-n:%d" % len(order))
        if near_flag(s["demand"], order):
            nt = True
            res.cls("on-threshold")
        if res.violations:
            return res
    res.nontrivial = nt
    return res


def tests(tier):
    return [
        TestDef("linear-relative", run_lin, strategy=lin_case(), quick=8000, thorough=400000),
        TestDef("stepwise", run_stepwise, strategy=step_case(), quick=3000, thorough=100000),
        TestDef("switch", run_switch, strategy=switch_case(), quick=4000, thorough=200000),
    ]
