#!/bin/bash
# Offline setup: make sure hypothesis (and atheris for the thorough fuzz tiers) are importable
HERE="$(cd "$(dirname "${BASH_SOURCE[0]}")" && pwd)"
PY="${VERIF_PYTHON:-/venv/bin/python}"
export PIP_NO_INDEX=1
mkdir -p "$HERE/.deps" "$HERE/evidence"
if ! PYTHONPATH="$HERE/.deps" "$PY" -c 'import hypothesis' 2>/dev/null; then
  "$PY" -m pip install --no-index --find-links /opt/veriftools/wheels --target "$HERE/.deps" hypothesis || exit 1
fi
if ! PYTHONPATH="$HERE/.deps" "$PY" -c 'import atheris' 2>/dev/null; then
  "$PY" -m pip install --no-index --find-links /opt/veriftools/wheels --target "$HERE/.deps" atheris >/dev/null 2>&1 || echo "note: atheris not installable; fuzz tiers will be skipped" >&2
fi
PYTHONPATH="/repo/src:$HERE/.deps" "$PY" -c 'import hypothesis, cobald, trio, yaml; print("setup ok: hypothesis", hypothesis.__version__)'
