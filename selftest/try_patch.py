#!/usr/bin/env python3
"""Run quick checks against a scratch worktree of /repo with a patch applied (never touches /repo's working tree).
Usage: selftest/try_patch.py <patch> <PROP> [<PROP> ...] [--tests] [--demo demo.py] [--seeds 1,2]"""
import argparse, os, shutil, subprocess, sys, tempfile, time
HOME = os.path.dirname(os.path.dirname(os.path.abspath(__file__)))

def main():
    ap = argparse.ArgumentParser()
    ap.add_argument("patch"); ap.add_argument("props", nargs="+"); ap.add_argument("--tests", action="store_true")
    ap.add_argument("--demo"); ap.add_argument("--seeds", default="1"); ap.add_argument("--tier", default="quick"); ap.add_argument("--rebase")
    a = ap.parse_args()
    scratch = tempfile.mkdtemp(prefix="cobald-seed-")
    repo = scratch + "/r"
    rc_all = 0
    try:
        subprocess.check_call(["git", "-C", "/repo", "worktree", "add", "--detach", "-f", repo, "HEAD"], stdout=subprocess.DEVNULL, stderr=subprocess.DEVNULL)
        if subprocess.call(["git", "-C", repo, "apply", os.path.abspath(a.patch)], stderr=subprocess.DEVNULL) != 0:
            subprocess.check_call(["git", "-C", repo, "apply", "--3way", os.path.abspath(a.patch)])
            subprocess.call(["git", "-C", repo, "reset", "-q"])
            rebased = subprocess.check_output(["git", "-C", repo, "diff"]).decode()
            print("note: patch needed --3way against current HEAD" + (f"; rebased copy written to {a.rebase}" if a.rebase else ""))
            if a.rebase:
                open(a.rebase, "w").write(rebased)
        env = {**os.environ, "PYTHONPATH": repo + "/src"}
        if a.tests:
            r = subprocess.run(["/venv/bin/python", "-m", "pytest", "-q", "-p", "no:cacheprovider", "--timeout=900"], cwd=repo, env=env, capture_output=True, text=True)
            print("tests:", r.stdout.strip().splitlines()[-1] if r.stdout.strip() else r.stderr[-300:])
        if a.demo:
            r = subprocess.run(["/venv/bin/python", os.path.abspath(a.demo)], cwd=repo, env=env, capture_output=True, text=True, timeout=300)
            print("demo (patched): rc", r.returncode, (r.stdout.strip().splitlines() or [""])[-1][:200])
            r = subprocess.run(["/venv/bin/python", os.path.abspath(a.demo)], cwd="/repo", env={**os.environ, "PYTHONPATH": "/repo/src"}, capture_output=True, text=True, timeout=300)
            print("demo (unchanged): rc", r.returncode, (r.stdout.strip().splitlines() or [""])[-1][:200])
        for prop in a.props:
            for seed in a.seeds.split(","):
                t0 = time.time()
                r = subprocess.run([os.path.join(HOME, "check"), prop, "--tier", a.tier, "--no-evidence"], env={**os.environ, "VERIF_REPO": repo, "VERIF_SEED": seed}, capture_output=True, text=True)
                verdict = {0: "MISSED", 1: "DETECTED", 2: "HARNESS-ERROR"}.get(r.returncode, str(r.returncode))
                clauses = sorted({l.split("clause=")[1].split(":")[0] for l in r.stdout.splitlines() if l.startswith("violation:")})
                print(f"{prop} seed={seed}: {verdict} {clauses} {time.time() - t0:.0f}s")
                if verdict == "HARNESS-ERROR": print(r.stderr[-800:])
                if verdict != "DETECTED": rc_all = 1
    finally:
        subprocess.call(["git", "-C", "/repo", "worktree", "remove", "--force", repo], stdout=subprocess.DEVNULL, stderr=subprocess.DEVNULL)
        shutil.rmtree(scratch, ignore_errors=True)
    return rc_all

if __name__ == "__main__":
    sys.exit(main())
