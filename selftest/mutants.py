"""Hand-written sensitivity mutants: (id, property, file under src/cobald, old text, new text).
Each must compile; whether the pinned tests still pass is recorded by run.py --with-tests."""
M = []
def m(mid, prop, file, old, new):
    M.append({"id": mid, "prop": prop, "file": file, "old": old, "new": new})

# ---- C06
m("c06-clamp-order", "C06", "decorator/standardiser.py",
  "        by_supply = _clamp(supply - self.backlog, value, supply + self.surplus)\n        by_limits = _clamp(self.minimum, by_supply, self.maximum)",
  "        by_supply = _clamp(self.minimum, value, self.maximum)\n        by_limits = _clamp(supply - self.backlog, by_supply, supply + self.surplus)")
m("c06-floor-after-clamp", "C06", "decorator/standardiser.py",
  "self.target.demand = self._clamp_demand(_floor(value, self.granularity))",
  "self.target.demand = _floor(self._clamp_demand(value), self.granularity)")
m("c06-getter-gt", "C06", "decorator/standardiser.py",
  "if abs(self._demand - self.target.demand) >= self.granularity:",
  "if abs(self._demand - self.target.demand) > self.granularity:")
m("c06-store-floored", "C06", "decorator/standardiser.py",
  "        self._demand = self._clamp_demand(value)\n",
  "        self._demand = self._clamp_demand(_floor(value, self.granularity))\n")
m("c06-swap-surplus-backlog", "C06", "decorator/standardiser.py",
  "_clamp(supply - self.backlog, value, supply + self.surplus)",
  "_clamp(supply - self.surplus, value, supply + self.backlog)")
m("c06-truncate-again", "C06", "decorator/standardiser.py",
  "return typed_limits if typed_limits == by_limits else by_limits",
  "return typed_limits")
# ---- C07
m("c07-wrong-count", "C07", "composite/weighted.py",
  "pool.demand = value / child_count", "pool.demand = value / (child_count or 1) if child_count < 3 else value / 3")
m("c07-weight-always-supply", "C07", "composite/weighted.py",
  "pool.demand = value * getattr(pool, self._weight) / self._total_weight",
  "pool.demand = value * pool.supply / self._total_weight")
m("c07-fallback-swapped", "C07", "composite/weighted.py",
  "return 0.0 if self.supply > 0 else 1.0", "return 1.0 if self.supply > 0 else 0.0")
m("c07-util-uses-alloc", "C07", "composite/uniform.py",
  "return sum(child.utilisation for child in self.children) / len(", "return sum(child.allocation for child in self.children) / len(")
m("c07-demand-from-children", "C07", "composite/uniform.py",
  "    def demand(self):\n        return self._demand", "    def demand(self):\n        return sum(c.demand for c in self.children) if self.children else self._demand")
# ---- C08
m("c08-lin-low-le", "C08", "controller/linear.py", "if self.target.utilisation < self.low_utilisation:", "if self.target.utilisation <= self.low_utilisation:")
m("c08-lin-high-ge", "C08", "controller/linear.py", "elif self.target.allocation > self.high_allocation:", "elif self.target.allocation >= self.high_allocation:")
m("c08-lin-elif-if", "C08", "controller/linear.py", "        elif self.target.allocation > self.high_allocation:", "        if self.target.allocation > self.high_allocation:")
m("c08-lin-no-interval", "C08", "controller/linear.py", "self.target.demand += interval * self.rate", "self.target.demand += self.rate")
m("c08-rel-else-missing", "C08", "controller/relative_supply.py", "        else:\n            self.target.demand = self.target.supply\n", "")
m("c08-rel-le", "C08", "controller/relative_supply.py", "if self.target.utilisation < self.low_utilisation:", "if self.target.utilisation <= self.low_utilisation:")
m("c08-range-bounds", "C08", "controller/stepwise.py", "if low <= supply < high:", "if low < supply <= high:")
m("c08-range-unsorted", "C08", "controller/stepwise.py", "thresholds, _rules = zip(*sorted(rules))", "thresholds, _rules = zip(*rules)")
m("c08-step-none-writes", "C08", "controller/stepwise.py", "            if demand is not None:\n                self.target.demand = demand", "            self.target.demand = demand if demand is not None else self.target.demand")
m("c08-step-interval-arg", "C08", "controller/stepwise.py", "demand = current_rule(target, interval)", "demand = current_rule(target, 1)")
m("c08-switch-lt", "C08", "controller/switch.py", "if demand <= self.target.demand:", "if demand < self.target.demand:")
m("c08-switch-first-match", "C08", "controller/switch.py", "                chosen = slave\n", "                chosen = slave\n                break\n")
m("c08-switch-no-retarget", "C08", "controller/switch.py", "        for _, slave in self._slaves:\n            slave.target = target\n", "")
m("c08-switch-unsorted", "C08", "controller/switch.py", "self._slaves = tuple(sorted(pairwise(slaves)))", "self._slaves = tuple(pairwise(slaves))")
# ---- C16
m("c16-log-after-write", "C16", "decorator/logger.py",
  "    def demand(self, value):\n        self._logger.log(", "    def demand(self, value):\n        self.target.demand = value\n        self._logger.log(")
m("c16-level-ignored", "C16", "decorator/logger.py", "        self._logger.log(\n            self.level,\n", "        self._logger.log(\n            logging.INFO,\n")
m("c16-template-unchecked", "C16", "decorator/logger.py", "            message % _LOGGER_TEST_FIELDS\n", "            pass\n")
m("c16-util-is-alloc", "C16", "interfaces/_proxy.py", "        return self.target.utilisation", "        return self.target.allocation")
m("c16-supply-field-demand", "C16", "decorator/logger.py", '"supply": self.target.supply,', '"supply": self.target.demand,')
m("c16-value-is-float", "C16", "decorator/logger.py", '"value": value,', '"value": float(value),')
m("c16-log-twice-on-change", "C16", "decorator/logger.py",
  "        self.target.demand = value\n\n    @property\n    def name",
  "        if value != self.target.demand and value > 90:\n            self._logger.log(self.level, self.message, {'value': value, 'demand': 0, 'supply': 0, 'utilisation': 0, 'allocation': 0, 'consumption': 0, 'target': self.target})\n        self.target.demand = value\n\n    @property\n    def name")
m("c16-name-ignored", "C16", "decorator/logger.py", "        self._logger = logging.getLogger(value)", "        self._logger = logging.getLogger('cobald.' + value)")
# ---- C17
m("c17-key-eq-unescaped", "C17", "monitor/format_line.py", 'return key.replace(r",", r"\\,").replace(r"=", r"\\=").replace(r" ", r"\\ ")', 'return key.replace(r",", r"\\,").replace(r" ", r"\\ ")')
m("c17-name-comma-unescaped", "C17", "monitor/format_line.py", 'output_str = name.replace(r",", r"\\,").replace(r" ", r"\\ ")', 'output_str = name.replace(r" ", r"\\ ")')
m("c17-field-backslash", "C17", "monitor/format_line.py", """return '"' + field.replace("\\\\", r"\\\\").replace('"', r"\\"") + '"'""", """return '"' + field.replace('"', r"\\"") + '"'""")
m("c17-resolution-after-ns", "C17", "monitor/format_line.py", "record.created // self._resolution * self._resolution", "record.created * 1e9 // self._resolution * self._resolution / 1e9")
m("c17-defaults-win", "C17", "monitor/format_line.py",
  "        tags = self._default_tags.copy()\n        tags.update(\n            {key: value for key, value in args.items() if key in self._tags_whitelist}\n        )",
  "        tags = {key: value for key, value in args.items() if key in self._tags_whitelist}\n        tags.update(self._default_tags)")
m("c17-tags-also-fields", "C17", "monitor/format_line.py", "self._fields_blacklist = self._tags_whitelist | set(RECORD_ATTRIBUTES)", "self._fields_blacklist = set(RECORD_ATTRIBUTES)")
m("c17-json-merge-order", "C17", "monitor/format_json.py", '        data.update(args)\n', '        for k, v in args.items():\n            data.setdefault(k, v)\n')
m("c17-json-time-after-data", "C17", "monitor/format_json.py", '        data.update(args)\n        return json.dumps(data)', '        data.update(args)\n        if self._add_time:\n            data["time"] = self.formatTime(record, self.datefmt)\n        return json.dumps(data)')
m("c17-quote-again", "C17", "monitor/format_line.py", '"%s=%s" % (_escape_key(key), _escape_field(value))\n', '("%s=%s" % (_escape_key(key), _escape_field(value))).replace("\'", \'"\')\n')
m("c17-ts-round-nearest", "C17", "monitor/format_line.py", "record.created // self._resolution * self._resolution", "round(record.created / self._resolution) * self._resolution")
# ---- C19
m("c19-list-front-to-back", "C19", "daemon/config/mapping.py",
  "                return list(\n                    reversed(\n                        [\n                            self.translate_hierarchy(\n                                item, where=\"%s[%s]\" % (where, index)\n                            )\n                            for index, item in reversed(list(enumerate(structure)))\n                        ]\n                    )\n                )",
  "                return [\n                    self.translate_hierarchy(item, where=\"%s[%s]\" % (where, index))\n                    for index, item in enumerate(structure)\n                ]")
m("c19-where-no-index", "C19", "daemon/config/mapping.py", 'item, where="%s[%s]" % (where, index)\n                            )', 'item, where="%s[]" % (where,)\n                            )')
m("c19-outer-where-overwrites", "C19", "daemon/config/mapping.py", "            if err.where is None:\n                raise ConfigurationError(what=err.what, where=where) from err\n            raise", "            raise ConfigurationError(what=err.what, where=where) from err")
m("c19-args-as-one", "C19", "daemon/config/mapping.py", "return factory(*args, **mapping)", "return factory(args, **mapping) if len(args) > 2 else factory(*args, **mapping)")
m("c19-parent-before-children", "C19", "daemon/config/mapping.py",
  "                structure = {\n                    key: self.translate_hierarchy(value, where=\"%s.%s\" % (where, key))\n                    for key, value in structure.items()\n                }\n                if \"__type__\" in structure:\n                    return self.construct(structure, **construct_kwargs)\n                return structure",
  "                if \"__type__\" in structure and not any(isinstance(v, (dict, list)) for v in structure.values()):\n                    return self.construct(structure, **construct_kwargs)\n                structure = {\n                    key: self.translate_hierarchy(value, where=\"%s.%s\" % (where, key))\n                    for key, value in reversed(list(structure.items()))\n                }\n                if \"__type__\" in structure:\n                    return self.construct(structure, **construct_kwargs)\n                return structure")
m("c19-attr-error-no-where", "C19", "daemon/config/mapping.py", "                        raise ConfigurationError(\n                            what=\"no such object %r\" % absolute_name\n                        ) from err", "                        raise ConfigurationError(\n                            what=\"no such object %r\" % absolute_name, where=absolute_name\n                        ) from err")
# ---- C14
m("c14-direction-inverted", "C14", "daemon/core/config.py", "        plugin.section: set(plugin.after) for plugin in plugins.values()", "        plugin.section: set(plugin.before) for plugin in plugins.values()")
m("c14-before-ignored", "C14", "daemon/core/config.py", "            dependencies.setdefault(before, set()).add(plugin.section)", "            dependencies.setdefault(before, set())")
m("c14-unknown-check-late", "C14", "daemon/config/mapping.py",
  "    if unmatched:\n        raise ConfigurationError(\n            where=\"root\",\n            what=\"unknown config sections %s\" % \", \".join(map(repr, unmatched)),\n        )\n    content = {}",
  "    content = {}")
m("c14-required-ignored", "C14", "daemon/config/mapping.py", "            if plugin.required:", "            if plugin.required and False:")
m("c14-none-kept", "C14", "daemon/config/mapping.py", "            if plugin_content is not None:", "            if True:")
m("c14-falsy-dropped", "C14", "daemon/config/mapping.py", "            if plugin_content is not None:", "            if plugin_content:")
m("c14-copy-content", "C14", "daemon/config/mapping.py", "            plugin_content = plugin.digest(section_data)", "            plugin_content = plugin.digest(section_data if not isinstance(section_data, list) else list(section_data))")
m("c14-keyed-by-section", "C14", "daemon/config/mapping.py", "                content[plugin] = plugin_content", "                content[plugin.section] = plugin_content")
m("c14-keyerror-again", "C14", "daemon/core/config.py", "            dependencies.setdefault(before, set()).add(plugin.section)", "            dependencies[before].add(plugin.section)")
m("c14-logging-unknown", "C14", "daemon/config/mapping.py", '        logging_mapping = config_data.pop("logging")', '        logging_mapping = config_data["logging"]')
# ---- C04
m("c04-args-before-target", "C04", "interfaces/_partial.py", "return self.ctor(*args, *self.args, **kwargs, **self.kwargs)", "return self.ctor(*self.args, *args, **kwargs, **self.kwargs)")
m("c04-bind-left-to-right", "C04", "interfaces/_partial.py",
  "            pool = self.targets[-1] >> other\n            for owner in reversed(self.targets[:-1]):\n                pool = owner >> pool",
  "            pool = self.targets[0] >> other\n            for owner in self.targets[1:]:\n                pool = owner >> pool")
m("c04-drop-targets", "C04", "interfaces/_partial.py", "return PartialBind(self, other.parent, *other.targets)", "return PartialBind(self, other.parent, *other.targets[:1])")
m("c04-call-prepends", "C04", "interfaces/_partial.py", "self.ctor, *self.args, *args, __leaf__=self.leaf, **self.kwargs, **kwargs", "self.ctor, *args, *self.args, __leaf__=self.leaf, **self.kwargs, **kwargs")
m("c04-bind-not-partial", "C04", "interfaces/_partial.py", "Signature.from_callable(self.ctor).bind_partial(*args, **kwargs)", "Signature.from_callable(self.ctor).bind(*args, **kwargs)")
m("c04-no-check-on-curry", "C04", "interfaces/_partial.py",
  "        self.leaf = __leaf__\n        self._check_signature()", "        self.leaf = __leaf__\n        if not args or len(args) < 2:\n            self._check_signature()")
m("c04-f3a-revert", "C04", "daemon/runners/service.py", "            __new_service__.__signature__ = inspect.signature(", "            __new_service__.__wrapped_signature__ = inspect.signature(")
m("c04-f3b-revert", "C04", "interfaces/_partial.py", "        if not self.leaf and (\n", "        if (\n")
m("c04-leaf-template-constructed-twice", "C04", "interfaces/_partial.py",
  "            if other.leaf:\n                return self >> other.__construct__()", "            if other.leaf:\n                other.__construct__()\n                return self >> other.__construct__()")
m("c04-deco-s-leaf", "C04", "interfaces/_proxy.py", "return Partial(cls, *args, __leaf__=False, **kwargs)", "return Partial(cls, *args, __leaf__=True, **kwargs)")
# ---- C15
m("c15-release-lt", "C15", "composite/factory.py", "            if child.demand <= excess_demand:", "            if child.demand < excess_demand:")
m("c15-excess-not-decremented", "C15", "composite/factory.py", "                excess_demand -= child.demand\n", "")
m("c15-grow-ge", "C15", "composite/factory.py", "        while missing_demand > 0:", "        while missing_demand >= 0:")
m("c15-release-keeps-demand", "C15", "composite/factory.py", "        child.demand = 0\n        self._hatchery.discard(child)", "        self._hatchery.discard(child)")
m("c15-release-keeps-hatchery", "C15", "composite/factory.py", "        self._hatchery.discard(child)\n", "")
m("c15-supply-hatchery-only", "C15", "composite/factory.py", "        return sum(child.supply for child in self.children)", "        return sum(child.supply for child in self._hatchery)")
m("c15-no-reap-after-grow", "C15", "composite/factory.py", "            missing_demand -= new_child.demand\n        self._reap_children()", "            missing_demand -= new_child.demand")
m("c15-util-all-children", "C15", "composite/factory.py", "        active_children = [child for child in self.children if child.supply > 0]\n        try:\n            return sum(child.utilisation", "        active_children = [child for child in self.children]\n        try:\n            return sum(child.utilisation")
m("c15-grow-counts-hatchery-only", "C15", "composite/factory.py", "missing_demand = target - sum(child.demand for child in self.children)", "missing_demand = target - sum(child.demand for child in self._hatchery if child.supply > 0)")
# ---- C09
m("c09-linear-no-sleep", "C09", "controller/linear.py", "            await trio.sleep(self.interval)", "            await trio.sleep(0)")
m("c09-linear-twice", "C09", "controller/linear.py", "            self.regulate(self.interval)\n", "            self.regulate(self.interval)\n            self.regulate(self.interval)\n")
m("c09-relative-single-pass", "C09", "controller/relative_supply.py", "        while True:\n            self.regulate(self.interval)\n            await trio.sleep(self.interval)", "        self.regulate(self.interval)\n        await trio.sleep(float('inf'))")
m("c09-stepwise-sleep-first", "C09", "controller/stepwise.py", "        while True:\n            current_rule", "        while True:\n            await trio.sleep(interval)\n            current_rule")
m("c09-switch-f5-revert", "C09", "controller/switch.py", "            self.regulate(self.interval)", "            self.regulate_demand(self.interval)")
m("c09-switch-double-interval", "C09", "controller/switch.py", "            await trio.sleep(self.interval)", "            await trio.sleep(self.interval * 2)")
m("c09-buffer-flush-on-write", "C09", "decorator/buffer.py", "    demand = 0.0\n\n    def __init__", "    @property\n    def demand(self):\n        return self._d\n\n    @demand.setter\n    def demand(self, v):\n        self._d = v\n        if getattr(self, 'target', None) is not None and v > 90:\n            self.target.demand = v\n\n    def __init__")
m("c09-buffer-sleep-first", "C09", "decorator/buffer.py", "        while True:\n            if self.demand", "        while True:\n            await trio.sleep(self.window)\n            if self.demand")
m("c09-buffer-stale-compare", "C09", "decorator/buffer.py", "            if self.demand != self.target.demand:", "            if self.demand > self.target.demand:")
m("c09-factory-adjust-first", "C09", "composite/factory.py", "        while True:\n            await trio.sleep(self.interval)\n            # freeze target demand in case another thread updates us\n            supply, demand = self.supply, self.demand\n            if supply > demand:\n                self._shrink(target=demand)\n            else:\n                self._grow(target=demand)",
  "        while True:\n            supply, demand = self.supply, self.demand\n            if supply > demand:\n                self._shrink(target=demand)\n            else:\n                self._grow(target=demand)\n            await trio.sleep(self.interval)")
m("c09-factory-every-other", "C09", "composite/factory.py", "            await trio.sleep(self.interval)\n", "            await trio.sleep(self.interval)\n            await trio.sleep(self.interval)\n")
m("c09-linear-interval-drift", "C09", "controller/linear.py", "            await trio.sleep(self.interval)", "            await trio.sleep(self.interval * 1.001)")
# ---- C05
m("c05-pipeline-forwards", "C05", "daemon/core/config.py", "            for index, item in reversed(list(enumerate(pipeline))):", "            for index, item in list(enumerate(pipeline)):")
m("c05-seq-as-one-arg", "C05", "daemon/config/yaml.py", "            return factory(*args)", "            return factory(args)")
m("c05-eager-inverted", "C05", "daemon/config/yaml.py", "            kwargs = loader.construct_mapping(node, deep=eager)", "            kwargs = loader.construct_mapping(node, deep=not eager)")
m("c05-type-target-dropped", "C05", "daemon/core/config.py",
  "                        prev_item = self.translate_hierarchy(\n                            item, where=\"%s[%s]\" % (where, index), target=prev_item\n                        )",
  "                        prev_item = self.translate_hierarchy(\n                            item, where=\"%s[%s]\" % (where, index), target=items[0]\n                        )")
m("c05-append-before-bind", "C05", "daemon/core/config.py",
  "                    if hasattr(item, \"__rshift__\"):\n                        # fully constructed object from !constructor\n                        prev_item = item >> prev_item",
  "                    if hasattr(item, \"__rshift__\"):\n                        # fully constructed object from !constructor\n                        prev_item = item >> items[0]")
m("c05-swallow-constructor-error", "C05", "daemon/core/config.py",
  "                        prev_item = item >> prev_item\n",
  "                        try:\n                            prev_item = item >> prev_item\n                        except ValueError:\n                            continue\n")
m("c05-construct-twice", "C05", "daemon/core/config.py", "                    if isinstance(prev_item, Partial):  # got form __type__\n                        prev_item = prev_item.__construct__()", "                    if isinstance(prev_item, Partial):  # got form __type__\n                        prev_item.__construct__()\n                        prev_item = prev_item.__construct__()")
m("c05-kwargs-order-lost", "C05", "daemon/config/mapping.py", "        mapping = {**mapping, **kwargs}", "        mapping = {**kwargs, **{k: v for k, v in mapping.items() if k != 'name'}}")
# ---- C18
m("c18-full-loader", "C18", "daemon/core/config.py", "from yaml import SafeLoader, BaseLoader, SequenceNode, MappingNode\n", "from yaml import FullLoader as SafeLoader, BaseLoader, SequenceNode, MappingNode\n")
m("c18-unsafe-loader", "C18", "daemon/core/config.py", "from yaml import SafeLoader, BaseLoader, SequenceNode, MappingNode\n", "from yaml import UnsafeLoader as SafeLoader, BaseLoader, SequenceNode, MappingNode\n")
m("c18-call-with-yaml-loader", "C18", "daemon/core/config.py", "            loader=COBalDLoader,  # type: ignore\n            plugins=config_plugins,", "            loader=__import__('yaml').Loader,\n            plugins=config_plugins,")
m("c18-unknown-tags-ignored", "C18", "daemon/core/config.py", '''                    pending.append((value_node, False))

''', '''                    pending.append((value_node, False))


COBalDLoader.add_multi_constructor("!", lambda loader, suffix, node: None)
''')
m("c18-python-name-fallback", "C18", "daemon/core/config.py", '''                    pending.append((value_node, False))

''', '''                    pending.append((value_node, False))


def _by_name(loader, suffix, node):
    from ..config.mapping import Translator
    return Translator.load_name(suffix)


COBalDLoader.add_multi_constructor("tag:yaml.org,2002:python/name:", _by_name)
''')
m("c18-safe-typed-variants", "C18", "daemon/core/config.py", '''                    pending.append((value_node, False))

''', '''                    pending.append((value_node, False))


COBalDLoader.add_constructor("tag:yaml.org,2002:python/tuple", lambda loader, node: tuple(loader.construct_sequence(node)))
''')
# ---- C01
m("c01-asyncio-falsy-swallowed", "C01", "daemon/runners/asyncio_runner.py", "            if result is None:\n                return", "            if not result:\n                return")
m("c01-thread-falsy-swallowed", "C01", "daemon/runners/thread_runner.py", "            if result is None:\n                return", "            if not result:\n                return")
m("c01-trio-falsy-swallowed", "C01", "daemon/runners/trio_runner.py", "        if value is not None:\n            raise OrphanedReturn(payload, value)", "        if value:\n            raise OrphanedReturn(payload, value)")
m("c01-gather-return-exceptions", "C01", "daemon/runners/meta_runner.py", "await asyncio.gather(*runner_tasks, self._unqueue_payloads())", "await asyncio.gather(*runner_tasks, self._unqueue_payloads(), return_exceptions=True)")
m("c01-run-swallows-exception", "C01", "daemon/runners/meta_runner.py", "        except KeyboardInterrupt:\n            self._logger.info(\"runner interrupted\")", "        except (KeyboardInterrupt, LookupError):\n            self._logger.info(\"runner interrupted\")")
m("c01-f1-revert", "C01", "daemon/runners/thread_runner.py", "            if isinstance(failure, StopIteration):", "            if False:")
m("c01-asyncio-unmonitored-after-start", "C01", "daemon/runners/asyncio_runner.py",
  "        task = self.asyncio_loop.create_task(self._monitor_payload(payload))", "        task = self.asyncio_loop.create_task(self._monitor_payload(payload) if not self._tasks else payload())")
m("c01-orphan-value-str", "C01", "daemon/runners/base_runner.py", "        self.value = value", "        self.value = str(value)")
m("c01-cause-dropped", "C01", "daemon/runners/meta_runner.py", 'raise RuntimeError("background task failed") from err', 'raise RuntimeError("background task failed: %s" % err) from None')
m("c01-thread-failure-only-first-thread", "C01", "daemon/runners/thread_runner.py", "        self.asyncio_loop.call_soon_threadsafe(self._set_failure, failure)", "        if not isinstance(failure, OrphanedReturn) or failure.value:\n            self.asyncio_loop.call_soon_threadsafe(self._set_failure, failure)")
m("c01-service-run-unmonitored", "C01", "daemon/runners/service.py", "            runner.register_payload(service.run, flavour=self.flavour)", "            runner.register_payload(service.run if self.flavour is not threading else (lambda: service.run() and None), flavour=self.flavour)")
# ---- C13
m("c13-config-not-held", "C13", "daemon/core/main.py", "    with load(path):\n        # sleep indefinitely to wait until the runtime is aborted\n        await asyncio.sleep(float(\"inf\"))",
  "    with load(path):\n        pass\n    import gc\n    gc.collect()\n    await asyncio.sleep(float(\"inf\"))")
m("c13-load-outside-loop", "C13", "daemon/core/main.py", "    runtime.adopt(_load_services, configuration, flavour=asyncio)\n    runtime.accept()",
  "    _held = load(configuration)\n    _held.__enter__()\n    runtime.accept()")
m("c13-load-in-thread", "C13", "daemon/core/main.py", "    runtime.adopt(_load_services, configuration, flavour=asyncio)", "    import threading\n    runtime.adopt(lambda: asyncio.run(_load_services(configuration)), flavour=threading)")
m("c13-cli-swallows-runtime-error", "C13", "daemon/core/main.py", "    options = CLI.parse_args()\n    run(", "    options = CLI.parse_args()\n    try:\n        _run_guarded(options)\n    except RuntimeError:\n        pass\n\n\ndef _run_guarded(options):\n    run(")
m("c13-unknown-extension-ignored", "C13", "daemon/core/config.py", "        raise ValueError(\n            \"Unknown configuration extension: %r\" % os.path.splitext(config_path)[1]\n        )", "        c = None")
m("c13-sigint-exit-1", "C13", "daemon/runners/meta_runner.py", "        except KeyboardInterrupt:\n            self._logger.info(\"runner interrupted\")", "        except KeyboardInterrupt:\n            self._logger.info(\"runner interrupted\")\n            raise SystemExit(1)")
m("c13-services-started-twice", "C13", "daemon/runners/service.py", "            self._started = True\n            runner.register_payload(service.run, flavour=self.flavour)", "            self._started = True\n            runner.register_payload(service.run, flavour=self.flavour)\n            if self.flavour is threading:\n                runner.register_payload(service.run, flavour=self.flavour)")
m("c13-pyconfig-module-dropped", "C13", "daemon/config/python.py", "    sys.modules[module_name] = module\n    spec.loader.exec_module(module)\n    return module", "    spec.loader.exec_module(module)\n    module.__dict__.clear()\n    return None")
# ---- C02
m("c02-close-only-first-runner", "C02", "daemon/runners/meta_runner.py", "        for runner in self._runners.values():\n            await runner.aclose()", "        for runner in list(self._runners.values())[1:]:\n            await runner.aclose()")
m("c02-trio-aclose-fire-and-forget", "C02", "daemon/runners/meta_runner.py", "        await asyncio.gather(*runner_tasks, return_exceptions=True)\n        self._runners.clear()", "        self._runners.clear()")
m("c02-f10-revert", "C02", "daemon/runners/trio_runner.py", "            try:\n                await trio_run\n            except BaseException:  # noqa: B036\n                # we are being cancelled, results of payloads are no longer of interest\n                pass\n            raise", "            raise")
m("c02-f11-revert", "C02", "daemon/runners/asyncio_runner.py", "        if self._stopped.is_set():\n            # nobody will cancel", "        if False:\n            # nobody will cancel")
# ---- C03
m("c03-started-never-set", "C03", "daemon/runners/service.py", "            self._started = True\n", "            pass\n")
m("c03-kwargs-dropped", "C03", "daemon/runners/service.py", "    def adopt(self, payload, /, *args, flavour: ModuleType, **kwargs):\n        \"\"\"\n        Concurrently run ``payload`` in the background\n\n        If ``*args*`` and/or ``**kwargs`` are provided, pass them to ``payload``\n        upon execution.\n        \"\"\"\n        if args or kwargs:\n            payload = functools.partial(payload, *args, **kwargs)", "    def adopt(self, payload, /, *args, flavour: ModuleType, **kwargs):\n        if args or kwargs:\n            payload = functools.partial(payload, *args)")
m("c03-adopt-waits", "C03", "daemon/runners/service.py", "        self._meta_runner.register_payload(payload, flavour=flavour)", "        if flavour is threading and self.running.is_set():\n            self._meta_runner.run_payload(payload, flavour=flavour)\n        else:\n            self._meta_runner.register_payload(payload, flavour=flavour)")
m("c03-queue-first-only", "C03", "daemon/runners/meta_runner.py", "            self.register_payload(*queue, flavour=flavour)", "            self.register_payload(*queue[:3], flavour=flavour)")
m("c03-f2-revert", "C03", "daemon/runners/trio_runner.py", "        try:\n            self._submit_tasks.send_nowait(payload)\n        except trio.ClosedResourceError:\n            # the channel is closed while trio still finishes the cleanup of payloads\n            self._logger.warning(f\"discarding payload {payload} during shutdown\")", "        self._submit_tasks.send_nowait(payload)")
m("c03-services-always-trio", "C03", "daemon/runners/service.py", "            runner.register_payload(service.run, flavour=self.flavour)", "            runner.register_payload(service.run, flavour=self.flavour if self.flavour is not __import__('asyncio') else trio)")
# ---- C10
m("c10-execute-kwargs-dropped", "C10", "daemon/runners/service.py", "    def execute(self, payload, /, *args, flavour: ModuleType, **kwargs):\n        \"\"\"\n        Synchronously run ``payload`` and provide its output\n\n        If ``*args*`` and/or ``**kwargs`` are provided, pass them to ``payload``\n        upon execution.\n        \"\"\"\n        if args or kwargs:\n            payload = functools.partial(payload, *args, **kwargs)", "    def execute(self, payload, /, *args, flavour: ModuleType, **kwargs):\n        if args or kwargs:\n            payload = functools.partial(payload, *args)")
m("c10-thread-result-copied", "C10", "daemon/runners/thread_runner.py", "        return payload()", "        import copy\n        return copy.copy(payload())")
m("c10-f8-revert", "C10", "daemon/runners/trio_runner.py", "            self._trio_token.run_sync_soon(self._submit_payload, payload)", "            trio.from_thread.run(self._submit_tasks.send, payload, trio_token=self._trio_token)")
m("c10-asyncio-exception-as-failure", "C10", "daemon/runners/asyncio_runner.py", "        future = asyncio.run_coroutine_threadsafe(payload(), self.asyncio_loop)\n        return future.result()", "        future = asyncio.run_coroutine_threadsafe(payload(), self.asyncio_loop)\n        try:\n            return future.result()\n        except LookupError as err:\n            self.asyncio_loop.call_soon_threadsafe(self._payload_failure.set_exception, err)\n            raise")
# ---- C11
m("c11-trio-execute-own-run", "C11", "daemon/runners/trio_runner.py", "        return trio.from_thread.run(payload, trio_token=self._trio_token)", "        return trio.run(payload)")
m("c11-asyncio-execute-own-loop", "C11", "daemon/runners/asyncio_runner.py", "        future = asyncio.run_coroutine_threadsafe(payload(), self.asyncio_loop)\n        return future.result()", "        return asyncio.run(payload())")
m("c11-thread-in-loop-thread", "C11", "daemon/runners/thread_runner.py", "        thread = threading.Thread(\n            target=self._monitor_payload, args=(payload,), daemon=True\n        )\n        thread.start()", "        self.asyncio_loop.call_soon_threadsafe(self._monitor_payload, payload)")
# ---- C12
m("c12-guard-not-released-on-error", "C12", "daemon/runners/guard.py", "                try:\n                    return fnc(*args, **kwargs)\n                finally:\n                    fnc_guard.release()", "                result = fnc(*args, **kwargs)\n                fnc_guard.release()\n                return result")
m("c12-guard-per-instance", "C12", "daemon/runners/guard.py", "            if fnc_guard.acquire(blocking=False):", "            if True:")
m("c12-kbint-reraised", "C12", "daemon/runners/meta_runner.py", "        except KeyboardInterrupt:\n            self._logger.info(\"runner interrupted\")", "        except KeyboardInterrupt:\n            self._logger.info(\"runner interrupted\")\n            raise")
m("c12-f9a-revert", "C12", "daemon/runners/meta_runner.py", "        for runner in list(self._runners.values()):\n            runner.stop()", "        for runner in self._runners.values():\n            runner.stop()")
m("c12-shutdown-skips-stop", "C12", "daemon/runners/service.py", "        self._is_shutdown.wait()\n        self._meta_runner.stop()", "        self._is_shutdown.wait()")

# ---- reverts of F12-F14
m("c18-f12-f16-revert", "C18", "daemon/core/config.py", "        self._check_tags(node)\n", "        pass\n")
m("c18-check-skips-sequences", "C18", "daemon/core/config.py", "                pending.extend((item, False) for item in node.value)", "                pass")
# (not checking mapping keys up front would be an equivalent change: PyYAML constructs every key through construct_object)
m("c03-f13-revert", "C03", "daemon/runners/service.py", "                _service_declaration(cls) is __new_service__\n                and getattr(self, \"__service_unit__\", None) is None", "                True")
# (F14 has no revert mutant: the lost interrupt shows in about one run of 300 on a loaded machine only; its scenario is kept
#  under regressions/C02 and was stressed by hand, 480 runs, when the repair was made)

# ---- reverts of F15-F18
m("c01-f15-revert", "C01", "daemon/runners/asyncio_runner.py", "            if isinstance(failure, StopIteration):", "            if False:")
m("c04-f17-revert", "C04", "interfaces/_partial.py", "def __init__(self, ctor: Type[C_co], /, *args, __leaf__, **kwargs):", "def __init__(self, ctor: Type[C_co], *args, __leaf__, **kwargs):")
m("c10-f18-revert", "C10", "daemon/runners/service.py", "def execute(self, payload, /, *args, flavour: ModuleType, **kwargs):", "def execute(self, payload, *args, flavour: ModuleType, **kwargs):")
m("c03-f18-revert", "C03", "daemon/runners/service.py", "def adopt(self, payload, /, *args, flavour: ModuleType, **kwargs):", "def adopt(self, payload, *args, flavour: ModuleType, **kwargs):")
m("c04-f19-revert", "C04", "daemon/runners/service.py", "        while hasattr(constructor, \"__service_flavour__\"):", "        while False:")
m("c03-f21-revert", "C03", "daemon/runners/service.py", "                and getattr(self, \"__service_unit__\", None) is None\n", "")
m("c14-f20-revert", "C14", "daemon/config/mapping.py", "\", \".join(map(repr, unmatched))", "\", \".join(unmatched)")
