#!/usr/bin/env python3
"""Sensitivity self-test: apply each mutant to a scratch copy of /repo, run the property's quick check
against the copy (VERIF_REPO), expect exit 1. Not a registered check. Usage:
    selftest/run.py [--prop C06] [--id mutant-id] [--with-tests] [--tier quick]"""
import argparse, json, os, shutil, subprocess, sys, tempfile, time
HERE = os.path.dirname(os.path.abspath(__file__))
HOME = os.path.dirname(HERE)
sys.path.insert(0, HERE)
from mutants import M

def main():
    ap = argparse.ArgumentParser()
    ap.add_argument("--prop"); ap.add_argument("--id"); ap.add_argument("--with-tests", action="store_true")
    ap.add_argument("--tier", default="quick"); ap.add_argument("--scale", default=None)
    a = ap.parse_args()
    rows = []
    for mu in M:
        if a.prop and mu["prop"] != a.prop.upper(): continue
        if a.id and mu["id"] != a.id: continue
        scratch = tempfile.mkdtemp(prefix="cobald-mutant-")
        try:
            subprocess.check_call(["git", "-C", "/repo", "worktree", "add", "--detach", "-f", scratch + "/r", "HEAD"], stdout=subprocess.DEVNULL, stderr=subprocess.DEVNULL)
            repo = scratch + "/r"
            path = os.path.join(repo, "src/cobald", mu["file"])
            src = open(path).read()
            if src.count(mu["old"]) < 1:
                rows.append((mu["id"], mu["prop"], "PATCH-DOES-NOT-APPLY", 0)); continue
            open(path, "w").write(src.replace(mu["old"], mu["new"], 1))
            tests = ""
            if a.with_tests:
                r = subprocess.run(["/venv/bin/python", "-m", "pytest", "-q", "-p", "no:cacheprovider", "--timeout=900", "-x"], cwd=repo,
                                   env={**os.environ, "PYTHONPATH": repo + "/src"}, capture_output=True, text=True)
                tests = "tests-pass" if r.returncode == 0 else "TESTS-FAIL"
            env = {**os.environ, "VERIF_REPO": repo}
            if a.scale: env["VERIF_SCALE"] = a.scale
            t0 = time.time()
            r = subprocess.run([os.path.join(HOME, "check"), mu["prop"], "--tier", a.tier, "--no-evidence"], env=env, capture_output=True, text=True)
            verdict = {0: "MISSED", 1: "killed", 2: "HARNESS-ERROR"}.get(r.returncode, str(r.returncode))
            clause = ""
            for line in r.stdout.splitlines():
                if line.startswith("violation:"):
                    clause = line.split("clause=")[1].split(":")[0]; break
            rows.append((mu["id"], mu["prop"], verdict + (" " + tests if tests else "") + (" [" + clause + "]" if clause else ""), round(time.time() - t0, 1)))
            if verdict == "HARNESS-ERROR": print(r.stderr[-1500:])
        finally:
            subprocess.call(["git", "-C", "/repo", "worktree", "remove", "--force", scratch + "/r"], stdout=subprocess.DEVNULL, stderr=subprocess.DEVNULL)
            shutil.rmtree(scratch, ignore_errors=True)
        print(*rows[-1], flush=True)
    missed = [r for r in rows if not r[2].startswith("killed")]
    print(f"{len(rows) - len(missed)}/{len(rows)} killed")
    return 1 if missed else 0

if __name__ == "__main__":
    sys.exit(main())
